// C17 — fixed body of every generated swizzle shard (not compiled on its own: gen/swizzle.py writes
// build/C17/gen-<hash>/swz_*_<n>.cpp, each of which includes this file and then lists its table rows with
// C17_SWZ(...)). One row = one accessor of one source type:
//     C17_SWZ(id, kind, impl, "swizzle/function/float/vec4/wzyx", (glm::vec<4, float, glm::packed_highp>), 4, 3,2,1,0, v.wzyx())
// The accessor expression is wrapped in a generic lambda with a decltype return type, so whether GLM offers the
// accessor is decided by the detection idiom (absent = counted); the oracle is the index tuple of the row.
#include "ref/refc17.hpp"
#include <glm/glm.hpp>
#include <glm/ext/vector_bool1.hpp>
#include <glm/ext/vector_int1.hpp>
#include <glm/ext/vector_uint1.hpp>
#include <glm/ext/vector_float1.hpp>
#include <glm/ext/vector_double1.hpp>
#include <glm/ext/scalar_int_sized.hpp>
#include <glm/ext/scalar_uint_sized.hpp>
#ifdef C17_WITH_FREE
#include <glm/gtx/vec_swizzle.hpp>
#endif

#if defined(C17_EXPECT_OPERATOR)
static_assert(GLM_CONFIG_SWIZZLE == GLM_SWIZZLE_OPERATOR, "this stage was configured for operator swizzles (GLM_FORCE_SWIZZLE + language extensions via the SIMD arch bit)");
#elif defined(C17_EXPECT_FUNCTION)
static_assert(GLM_CONFIG_SWIZZLE == GLM_SWIZZLE_FUNCTION, "this stage was configured for member-function swizzles (GLM_FORCE_SWIZZLE, no language extensions)");
#endif

// The visitors below are large and instantiated once per proxy type; they are harness code, so they are kept out of the
// optimiser (GLM's own functions are still compiled at the stage's optimisation level, as separate functions).
#if defined(__clang__)
#define C17_NOOPT __attribute__((optnone, noinline))
#else
#define C17_NOOPT __attribute__((optimize("O0"), noinline))
#endif

namespace c17s {

enum Impl { I_FUNCTION = 0, I_FREE = 1, I_OPERATOR = 2, I_MEMBER = 3 };

template <class V> struct VT;
template <glm::length_t L, class T, glm::qualifier Q> struct VT<glm::vec<L, T, Q> > {
	typedef T elem;
	static const int len = L;
	static const glm::qualifier qual = Q;
};
template <class V> static inline const typename VT<V>::elem* raw(const V& v) { return reinterpret_cast<const typename VT<V>::elem*>(&v); }
template <class V> static inline typename VT<V>::elem* raw(V& v) { return reinterpret_cast<typename VT<V>::elem*>(&v); }

// one case: a source vector filled with tags, the pattern of the row
template <class V> struct Case {
	typedef typename VT<V>::elem T;
	enum { L = VT<V>::len };
	pbt::Ctx& c;
	const c17::Entry& e;
	unsigned f;
	const int* idx;
	int N;
	V v;
	T src[4];
	bool dupfree;
	Case(pbt::Ctx& c_, const c17::Entry& e_, unsigned f_, const int* idx_, int N_) : c(c_), e(e_), f(f_), idx(idx_), N(N_) {
		refill(false);
		dupfree = true;
		for (int a = 0; a < N; ++a) for (int b = a + 1; b < N; ++b) if (idx[a] == idx[b]) dupfree = false;
		bool nt = std::is_same<T, bool>::value ? (L >= 2 && c17::one_differs(reinterpret_cast<const bool*>(src), L)) : c17::pairwise_distinct(src, L);
		if (L == 1) nt = true;
		if (nt) c.nontrivial();
		c.cls(nt ? (dupfree ? "pattern-duplicate-free" : "pattern-with-duplicates") : "source-not-distinct");
		c.logf("%s, filling %u: source %s", e.name, f, c17::show(src, L).c_str());
	}
	// (re)write the source through its raw element array; padding (aligned vec3) gets a fixed byte pattern
	void refill(bool small) {
		std::memset(static_cast<void*>(&v), 0x7b, sizeof(V));
		T* p = raw(v);
		for (int k = 0; k < L; ++k) p[k] = src[k] = small ? c17::Tag<T>::small(f, k) : c17::Tag<T>::make(f, k);
	}
	const V& cv() const { return v; }
	void fail_type(const char* what) { c.failk(std::string(e.name) + "/type", "%s", what); }
};

// ---- visitor for reads ---------------------------------------------------------------------------------------------------
template <class V, int N, int IMPL> struct ReadK {
	typedef typename VT<V>::elem T;
	static const glm::qualifier Q = VT<V>::qual;
	enum { L = VT<V>::len };
	typedef glm::vec<N, T, Q> R;
	Case<V>* cs;

	template <class S> C17_NOOPT void operator()(const S& s) const {
		pbt::Ctx& c = cs->c;
		const c17::Entry& e = cs->e;
		const T* src = cs->src;
		const int* idx = cs->idx;
		if constexpr (IMPL == I_MEMBER) {
			// one-letter accessor: the named data member itself
			if constexpr (std::is_same<S, T>::value) c17::check_select(c, e, "", src, L, &s, 1, idx);
			else cs->fail_type("the one-letter member is not of the element type");
		} else if constexpr (IMPL == I_FUNCTION || IMPL == I_FREE) {
			// the accessor returns vec<N,T,Q> by value
			if constexpr (std::is_same<S, R>::value) c17::check_select(c, e, "", src, L, raw(s), N, idx);
			else cs->fail_type("the accessor does not return vec<N,T,Q> of the source's element type and qualifier");
		} else {
			// operator form: s is the proxy member; every documented way of turning it into values
			R r1 = s;  // implicit conversion (manual 2.14.2)
			c17::check_select(c, e, "", src, L, raw(r1), N, idx);
			R r2 = s();  // operator()
			c17::check_select(c, e, "/call", src, L, raw(r2), N, idx);
			T r3[4];
			for (int k = 0; k < N; ++k) r3[k] = s[k];
			c17::check_select(c, e, "/index", src, L, r3, N, idx);
			R r4(s);  // explicit conversion through a constructor
			c17::check_select(c, e, "/ctor", src, L, raw(r4), N, idx);
			T sel[4];
			for (int k = 0; k < N; ++k) sel[k] = src[idx[k]];
			const T a = c17::Tag<T>::make(cs->f, 8), b = c17::Tag<T>::make(cs->f, 9);
			// vector constructors that take swizzle proxies among their arguments (type_vec3.hpp / type_vec4.hpp)
			if constexpr (N == 2) {
				glm::vec<4, T, Q> m1(s, s), m2(a, b, s), m3(a, s, b), m4(s, a, b);
				glm::vec<3, T, Q> m5(s, a), m6(a, s);
				const T e1[4] = {sel[0], sel[1], sel[0], sel[1]}, e2[4] = {a, b, sel[0], sel[1]}, e3[4] = {a, sel[0], sel[1], b}, e4[4] = {sel[0], sel[1], a, b};
				const T e5[3] = {sel[0], sel[1], a}, e6[3] = {a, sel[0], sel[1]};
				mixed(m1, e1, "vec4(s,s)"); mixed(m2, e2, "vec4(a,b,s)"); mixed(m3, e3, "vec4(a,s,b)"); mixed(m4, e4, "vec4(s,a,b)");
				mixed(m5, e5, "vec3(s,a)"); mixed(m6, e6, "vec3(a,s)");
			}
			if constexpr (N == 3) {
				glm::vec<4, T, Q> m7(s, a), m8(a, s);
				const T e7[4] = {sel[0], sel[1], sel[2], a}, e8[4] = {a, sel[0], sel[1], sel[2]};
				mixed(m7, e7, "vec4(s,a)"); mixed(m8, e8, "vec4(a,s)");
			}
			// binary operators defined on the proxies (_swizzle.hpp): the proxy must contribute exactly the named components
			if constexpr (!std::is_same<T, bool>::value) {
				cs->refill(true);
				T x[4], o[4];
				R t;
				for (int k = 0; k < N; ++k) { x[k] = cs->src[idx[k]]; raw(t)[k] = o[k] = c17::Tag<T>::operand(cs->f, k); }
				const T sc = c17::Tag<T>::operand(cs->f, 1);
				R q1 = s + t, q2 = t - s, q3 = s * s, q4 = s / t, q5 = s * sc, q6 = sc - s;
				T w1[4], w2[4], w3[4], w4[4], w5[4], w6[4];
				for (int k = 0; k < N; ++k) {
					w1[k] = (T)(x[k] + o[k]); w2[k] = (T)(o[k] - x[k]); w3[k] = (T)(x[k] * x[k]); w4[k] = (T)(x[k] / o[k]); w5[k] = (T)(x[k] * sc); w6[k] = (T)(sc - x[k]);
				}
				// aligned_lowp float vector division is the _mm_rcp_ps approximation (compute_vec_div<L,float,aligned_lowp,true>): not a BITS relation, left to C03
#if GLM_CONFIG_ALIGNED_GENTYPES == GLM_ENABLE
				const bool exact_div = !(Q == glm::aligned_lowp && std::is_same<T, float>::value);
#else
				const bool exact_div = true;
#endif
				arith(q1, w1, "s+t"); arith(q2, w2, "t-s"); arith(q3, w3, "s*s"); if (exact_div) arith(q4, w4, "s/t"); else cs->c.cls("approximate-division-not-compared");
				arith(q5, w5, "s*scalar"); arith(q6, w6, "scalar-s");
				cs->refill(false);
			}
		}
	}
	template <class M> void mixed(const M& m, const T* exp, const char* what) const {
		const int n = VT<M>::len;
		for (int k = 0; k < n; ++k) if (!c17::same(raw(m)[k], exp[k])) {
			cs->c.failk(std::string(cs->e.name) + "/ctor-mixed", "%s with s = this swizzle of %s: got %s, expected %s", what, c17::show(cs->src, L).c_str(), c17::show(raw(m), n).c_str(), c17::show(exp, n).c_str());
			return;
		}
	}
	void arith(const R& r, const T* exp, const char* what) const {
		for (int k = 0; k < N; ++k) if (!c17::same(raw(r)[k], exp[k])) {
			cs->c.failk(std::string(cs->e.name) + "/arith", "%s with s = this swizzle of %s: got %s, expected %s", what, c17::show(cs->src, L).c_str(), c17::show(raw(r), N).c_str(), c17::show(exp, N).c_str());
			return;
		}
	}
};

// ---- visitor for stores through an operator swizzle -------------------------------------------------------------------
template <class V, int N> struct WriteK {
	typedef typename VT<V>::elem T;
	static const glm::qualifier Q = VT<V>::qual;
	enum { L = VT<V>::len };
	typedef glm::vec<N, T, Q> R;
	Case<V>* cs;

	template <class S> C17_NOOPT void operator()(S& s) const {
		pbt::Ctx& c = cs->c;
		const c17::Entry& e = cs->e;
		const int* idx = cs->idx;
		const bool assignable = std::is_assignable<S&, const R&>::value;
		if (assignable && !cs->dupfree) c.failk(std::string(e.name) + "/duplicate-writable", "a pattern with repeated components accepts assignment from a vector (_swizzle.hpp: such swizzles cannot be modified)");
		if (!assignable && cs->dupfree) {
			// input class of its own: three letters of a vec4 that name the fourth component (E3 of the proxy type is a filler there)
			const bool names_fourth = (N == 3 && L == 4 && (idx[0] == 3 || idx[1] == 3 || idx[2] == 3));
			c.failk(std::string(e.name) + (names_fourth ? "/not-writable/three-letters-naming-w" : "/not-writable"),
			        "a duplicate-free pattern does not accept assignment from vec<N,T,Q> (manual 2.14.2: L-value swizzle expressions)");
		}
		if constexpr (std::is_assignable<S&, const R&>::value) {
			if (!cs->dupfree) return;
			c.cls("writable");
			T before[4], val[4];
			R t;
			// s = vector
			cs->refill(false);
			for (int k = 0; k < L; ++k) before[k] = cs->src[k];
			for (int k = 0; k < N; ++k) raw(t)[k] = val[k] = c17::Tag<T>::make(cs->f, 8 + k);
			s = t;
			c17::check_place(c, e, "/assign", before, raw(cs->cv()), L, val, N, idx);
			// s = scalar
			cs->refill(false);
			const T sc = c17::Tag<T>::make(cs->f, 12);
			for (int k = 0; k < N; ++k) val[k] = sc;
			s = sc;
			c17::check_place(c, e, "/assign-scalar", before, raw(cs->cv()), L, val, N, idx);
			// s = the vector it lives in (N == L): the operand aliases the destination
			if constexpr (N == L) {
				cs->refill(false);
				for (int k = 0; k < N; ++k) val[k] = before[k];
				s = cs->cv();
				c17::check_place(c, e, "/assign-self", before, raw(cs->cv()), L, val, N, idx);
			}
			// compound assignment: exactly the named components combine with the operand
			if constexpr (!std::is_same<T, bool>::value) {
				T o[4];
				for (int k = 0; k < N; ++k) raw(t)[k] = o[k] = c17::Tag<T>::operand(cs->f, k);
				for (int op = 0; op < 4; ++op) {
					cs->refill(true);
					for (int k = 0; k < L; ++k) before[k] = cs->src[k];
					for (int k = 0; k < N; ++k) {
						T x = before[idx[k]];
						switch (op) { case 0: x += o[k]; break; case 1: x -= o[k]; break; case 2: x *= o[k]; break; default: x /= o[k]; break; }
						val[k] = x;
					}
					switch (op) { case 0: s += t; break; case 1: s -= t; break; case 2: s *= t; break; default: s /= t; break; }
					static const char* const sub[4] = {"/add-assign", "/sub-assign", "/mul-assign", "/div-assign"};
					c17::check_place(c, e, sub[op], before, raw(cs->cv()), L, val, N, idx);
				}
			}
			cs->refill(false);
		}
	}
};

template <class V, int N, int IMPL, class F> static void run_swz(pbt::Ctx& c, const c17::Entry& e, unsigned f, const int* idx, F acc) {
	typedef ReadK<V, N, IMPL> RK;
	if constexpr (std::is_invocable<F, const V&, const RK&>::value) {
		Case<V> cs(c, e, f, idx, N);
		const RK rk = {&cs};
		acc(cs.cv(), rk);
		if constexpr (IMPL == I_OPERATOR) {
			const WriteK<V, N> wk = {&cs};
			acc(cs.v, wk);
		}
	} else {
		c17::absent(c, e);
	}
}

}  // namespace c17s

#define C17_UNPAREN(...) __VA_ARGS__
// id, kind, impl, name, (source type), N, i0,i1,i2,i3, accessor expression over `v`
#define C17_SWZ(ID, KIND, IMPL, NAME, VTYPE, N, I0, I1, I2, I3, ACC)                                                              \
	static void c17_e##ID(pbt::Ctx& c, const c17::Entry& e, unsigned f) {                                                          \
		static const int idx[4] = {I0, I1, I2, I3};                                                                                \
		c17s::run_swz<C17_UNPAREN VTYPE, N, IMPL>(c, e, f, idx, [](auto& v, auto& k) -> decltype(k(ACC)) { return k(ACC); });      \
	}                                                                                                                              \
	static c17::Reg c17_r##ID(KIND, NAME, &c17_e##ID);
#define C17_UNINST(ID, KIND, NAME, NOTE) static c17::Reg c17_r##ID(KIND, NAME, &c17::run_uninstantiable, NOTE);
