// C04 (part 3 of 3) — dual quaternions as rigid transforms (gtx/dual_quaternion), quaternion exp/log/pow/sqrt
// (ext/quaternion_exponential), quatLookAt (gtc/quaternion) and the component/constructor conventions of glm::qua that the
// storage-order switch must leave intact (detail/type_quat). No main() here (see C04_quat.cpp).
// Oracle: engine/ref/refrot.hpp in long double. A unit dual quaternion (r, d) is the rigid transform v -> Rot(r) v + t with
// d = (0,t) r / 2, i.e. t = 2 vec(d r*); GLM's dq*v evaluates the polynomial P(r) v + 2 vec(d r*), which is what the reference evaluates
// on the T-rounded parts. q^y = |q|^y (cos y th, n sin y th) with th = atan2(|xyz|, w) in [0, pi]; log q = (ln|q|, th n); exp(w + u) = e^w (cos|u|, u sin|u| / |u|).
#include "fp.hpp"
#include "ref/refrot.hpp"
#include <glm/glm.hpp>
#include <glm/gtc/quaternion.hpp>
#include <glm/gtx/quaternion.hpp>
#include <glm/gtx/dual_quaternion.hpp>

#ifndef C04_CFG
#define C04_CFG "xyzw"
#endif

using namespace refrot;

template <class T> static const char* tname() { return sizeof(T) == 4 ? "float" : "double"; }
template <class T> static std::string key(const char* fn, const char* what, const char* cls = nullptr) {
	std::string s = std::string(fn) + "/" + tname<T>() + "/" + what;
	if (cls) { s += "/"; s += cls; }
	return s;
}
template <class T> static glm::vec<3, T> GV(const T* v) { glm::vec<3, T> r; r.x = v[0]; r.y = v[1]; r.z = v[2]; return r; }
template <class T> static glm::qua<T> GQ(const T* q) { glm::qua<T> r; r.w = q[0]; r.x = q[1]; r.y = q[2]; r.z = q[3]; return r; }
template <class T> static bool bits_q(const glm::qua<T>& a, const glm::qua<T>& b) { return fp::same_bits(a.w, b.w) && fp::same_bits(a.x, b.x) && fp::same_bits(a.y, b.y) && fp::same_bits(a.z, b.z); }
template <class T> static bool bits_v3(const glm::vec<3, T>& a, const glm::vec<3, T>& b) { return fp::same_bits(a.x, b.x) && fp::same_bits(a.y, b.y) && fp::same_bits(a.z, b.z); }
template <class T> static std::string gq(const glm::qua<T>& q) { T a[4] = {q.w, q.x, q.y, q.z}; return "wxyz" + astr(a, 4); }
template <class T> static std::string gv(const glm::vec<3, T>& v) { T a[3] = {v.x, v.y, v.z}; return astr(a, 3); }

#define REG2(fn, name, q, t, rule) \
	static void fn##_f(pbt::Ctx& c) { static const CaseAlign al(name "/float", name "/float/" C04_CFG); al.apply(c); fn<float>(c); } PBT_RANDOM(name "/float/" C04_CFG, fn##_f, q, t, rule); \
	static void fn##_d(pbt::Ctx& c) { static const CaseAlign al(name "/double", name "/double/" C04_CFG); al.apply(c); fn<double>(c); } PBT_RANDOM(name "/double/" C04_CFG, fn##_d, q, t, rule)

// =====================================================================================================================
// dual quaternions
template <class T> static void dualquat(pbt::Ctx& c) {
	T q1[4], q2[4], p1[3], p2[3], v[3];
	int qc = gen_unit_quat<T>(c, q1), qc2 = gen_unit_quat<T>(c, q2);
	gen_vec3<T>(c, p1, nullptr, 6); gen_vec3<T>(c, p2, nullptr, 6); gen_vec3<T>(c, v, nullptr, 6);
	if (c.draw(8) == 0) p1[0] = p1[1] = p1[2] = 0;  // pure rotation
	T w4 = c.coin() ? T(1) : fp::gen_moderate<T>(c, 4, 4);
	c.cls(QC_NAME[qc]);
	if (c.verbose) c.logf("q1=wxyz%s t1=%s q2=wxyz%s t2=%s v=%s (%s,%s)", astr(q1, 4).c_str(), astr(p1, 3).c_str(), astr(q2, 4).c_str(), astr(p2, 3).c_str(), astr(v, 3).c_str(), QC_KEY[qc], QC_KEY[qc2]);
	const R eps = EPS<T>(), u = U<T>();
	Qn r1 = qn_of_arr(q1), r2 = qn_of_arr(q2);
	V3 t1 = v3_of_arr(p1), t2 = v3_of_arr(p2), rv = v3_of_arr(v);
	const R d1 = rabs(qnorm2(r1) - 1), d2 = rabs(qnorm2(r2) - 1);
	const R vn = vnorm(rv), tn1 = vnorm(t1), tn2 = vnorm(t2);
	{ V3 u1 = qvec(r1); R s1 = vnorm(u1); if (s1 > 1e-3L && tn1 > 0 && vnorm(vcross(u1, rv)) > 1e-3L * s1 * vn) c.nontrivial(); }
	typedef glm::tdualquat<T> DQ;
	glm::qua<T> Q1 = GQ(q1), Q2 = GQ(q2);
	glm::vec<3, T> P1 = GV(p1), P2 = GV(p2), V = GV(v);
	DQ D1(Q1, P1), D2(Q2, P2);
	// (a) constructor from orientation + translation: real = q, dual = (0,t) q / 2
	{
		if (!bits_q(D1.real, Q1)) c.failk(key<T>("tdualquat(q,t)", "real-part"), "tdualquat(q,t).real=%s, q=wxyz%s", gq(D1.real).c_str(), astr(q1, 4).c_str());
		Qn tq{0, t1.x, t1.y, t1.z};
		Qn want = qscale(qmul(tq, r1), 0.5L), S = qscale(qmul_scale(tq, r1), 0.5L), g = qn_of(D1.dual);
		bool ok = true;
		for (int i = 0; i < 4; ++i) ok = ok && within(c, "tdualquat(q,t).dual component err/tol", rabs(qget(g, i) - qget(want, i)), 32 * u * qget(S, i) + TINY<T>());
		if (!ok) c.failk(key<T>("tdualquat(q,t)", "dual-part", QC_KEY[qc]), "tdualquat(q=wxyz%s,t=%s).dual=%s, (0,t) q / 2 = %s", astr(q1, 4).c_str(), astr(p1, 3).c_str(), gq(D1.dual).c_str(), qstr(want).c_str());
		if (!bits_q(D1[0], D1.real) || !bits_q(D1[1], D1.dual)) c.failk(key<T>("tdualquat[]", "0-real-1-dual"), "dq[0]/dq[1] are not the real/dual parts");
		DQ only(Q1);
		if (!bits_q(only.real, Q1) || !(only.dual.w == 0 && only.dual.x == 0 && only.dual.y == 0 && only.dual.z == 0)) c.failk(key<T>("tdualquat(q)", "zero-dual"), "tdualquat(q) has dual part %s", gq(only.dual).c_str());
		DQ both(Q1, Q2);
		if (!bits_q(both.real, Q1) || !bits_q(both.dual, Q2)) c.failk(key<T>("tdualquat(real,dual)", "parts"), "tdualquat(real,dual) does not store its arguments");
		DQ id = glm::dual_quat_identity<T, glm::defaultp>();
		if (!(id.real.w == 1 && id.real.x == 0 && id.real.y == 0 && id.real.z == 0 && id.dual.w == 0 && id.dual.x == 0 && id.dual.y == 0 && id.dual.z == 0)) c.failk(key<T>("dual_quat_identity", "value"), "dual_quat_identity is not ((1,0,0,0),(0,0,0,0))");
	}
	// (b) dq * v: the polynomial P(r) v + 2 vec(d r*) on the stored parts, and the rigid transform Rot(q) v + t it stands for
	const Qn rr = qn_of(D1.real), rd = qn_of(D1.dual);
	auto apply_ref = [&](Qn real, Qn dual, V3 x) { return vadd(mvec(qpoly(real), x), vscale(qvec(qmul(dual, qconj(real))), 2)); };
	glm::vec<3, T> g1 = D1 * V;
	{
		V3 want = apply_ref(rr, rd, rv), g = v3_of(g1);
		R tol = 32 * eps * (vn + tn1) + TINY<T>();
		if (!within(c, "dq*v vs polynomial reference err/tol", vmaxabs(vsub(g, want)), tol))
			c.failk(key<T>("dualquat*vec3", "reference-transform", QC_KEY[qc]), "dq(q=wxyz%s,t=%s)*%s=%s, reference %s", astr(q1, 4).c_str(), astr(p1, 3).c_str(), astr(v, 3).c_str(), gv(g1).c_str(), vstr(want).c_str());
		V3 rigid = vadd(mvec(qrot(r1), rv), t1);
		if (!within(c, "dq*v vs Rot(q) v + t err/tol", vmaxabs(vsub(g, rigid)), tol + 2 * d1 * (vn + tn1)))
			c.failk(key<T>("dualquat*vec3", "rotation-then-translation", QC_KEY[qc]), "dq(q=wxyz%s,t=%s)*%s=%s, Rot(q) v + t = %s", astr(q1, 4).c_str(), astr(p1, 3).c_str(), astr(v, 3).c_str(), gv(g1).c_str(), vstr(rigid).c_str());
		glm::vec<4, T> g4 = D1 * glm::vec<4, T>(V, w4);
		if (!bits_v3(glm::vec<3, T>(g4), g1) || !fp::same_bits(g4.w, w4)) c.failk(key<T>("dualquat*vec4", "equals-dualquat*vec3"), "dq*(v,w) differs from (dq*v,w)");
	}
	// (c) inverse: v * dq = inverse(dq) * v = Rot(q)^-1 (v - t); inverse(dq) * (dq * v) = v
	{
		DQ I = glm::inverse(D1);
		V3 want = mvec(mtranspose(qrot(r1)), vsub(rv, t1));
		glm::vec<3, T> gi = V * D1;
		R tol = 64 * eps * (vn + tn1) + 4 * d1 * (vn + tn1) + TINY<T>();
		if (!within(c, "v*dq vs inverse transform err/tol", vmaxabs(vsub(v3_of(gi), want)), tol))
			c.failk(key<T>("vec3*dualquat", "inverse-transform", QC_KEY[qc]), "%s*dq(q=wxyz%s,t=%s)=%s, Rot(q)^-1 (v - t) = %s", astr(v, 3).c_str(), astr(q1, 4).c_str(), astr(p1, 3).c_str(), gv(gi).c_str(), vstr(want).c_str());
		if (!bits_v3(I * V, gi)) c.failk(key<T>("vec3*dualquat", "equals-inverse*vec3"), "v*dq differs from inverse(dq)*v");
		glm::vec<4, T> gi4 = glm::vec<4, T>(V, w4) * D1;
		if (!bits_v3(glm::vec<3, T>(gi4), gi) || !fp::same_bits(gi4.w, w4)) c.failk(key<T>("vec4*dualquat", "equals-vec3*dualquat"), "(v,w)*dq differs from (v*dq,w)");
		V3 back = v3_of(I * g1);
		if (!within(c, "inverse(dq)*(dq*v) vs v err/tol", vmaxabs(vsub(back, rv)), 2 * tol))
			c.failk(key<T>("inverse(dualquat)", "round-trip", QC_KEY[qc]), "inverse(dq)*(dq*v)=%s, v=%s, q=wxyz%s t=%s", vstr(back).c_str(), astr(v, 3).c_str(), astr(q1, 4).c_str(), astr(p1, 3).c_str());
		// inverse(dq) * dq = identity transform
		DQ E = I * D1;
		R e = rmax(qmaxdiff(qn_of(E.real), Qn{1, 0, 0, 0}), qmaxdiff(qn_of(E.dual), Qn{0, 0, 0, 0}));
		if (!within(c, "inverse(dq)*dq vs identity err/tol", e, (32 * eps + 2 * d1) * (1 + tn1)))
			c.failk(key<T>("inverse(dualquat)", "times-dq-is-identity", QC_KEY[qc]), "inverse(dq)*dq=(%s,%s) for q=wxyz%s t=%s", gq(E.real).c_str(), gq(E.dual).c_str(), astr(q1, 4).c_str(), astr(p1, 3).c_str());
	}
	// (d) product = composition: (dq1 dq2) v = dq1 (dq2 v) = Rot(q1)(Rot(q2) v + t2) + t1
	{
		DQ D12 = D1 * D2;
		V3 l = v3_of(D12 * V), r = v3_of(D1 * (D2 * V));
		V3 want = vadd(mvec(qrot(r1), vadd(mvec(qrot(r2), rv), t2)), t1);
		R scale = vn + tn1 + tn2, tol = (96 * eps + 4 * (d1 + d2)) * scale + TINY<T>();
		if (!within(c, "(dq1 dq2) v vs dq1 (dq2 v) err/tol", vmaxabs(vsub(l, r)), tol))
			c.failk(key<T>("dualquat*dualquat", "composition", QC_KEY[qc]), "(dq1*dq2)*v=%s but dq1*(dq2*v)=%s; q1=wxyz%s t1=%s q2=wxyz%s t2=%s v=%s", vstr(l).c_str(), vstr(r).c_str(), astr(q1, 4).c_str(), astr(p1, 3).c_str(), astr(q2, 4).c_str(), astr(p2, 3).c_str(), astr(v, 3).c_str());
		if (!within(c, "(dq1 dq2) v vs reference composition err/tol", vmaxabs(vsub(l, want)), tol))
			c.failk(key<T>("dualquat*dualquat", "reference-composition", QC_KEY[qc]), "(dq1*dq2)*v=%s, Rot(q1)(Rot(q2) v + t2) + t1 = %s; q1=wxyz%s t1=%s q2=wxyz%s t2=%s v=%s", vstr(l).c_str(), vstr(want).c_str(), astr(q1, 4).c_str(), astr(p1, 3).c_str(), astr(q2, 4).c_str(), astr(p2, 3).c_str(), astr(v, 3).c_str());
	}
	// (e) matrices: mat3x4_cast rows are [Rot | t]; dualquat_cast inverts it up to the common sign; mat2x4 holds the two parts
	{
		glm::mat<3, 4, T> M = glm::mat3x4_cast(D1);
		M3 rot = qrot(r1);
		R er = 0, et = 0;
		for (int i = 0; i < 3; ++i) { for (int j = 0; j < 3; ++j) er = rmax(er, rabs((R)M[i][j] - rot.m[i][j])); et = rmax(et, rabs((R)M[i][3] - vget(t1, i))); }
		if (!within(c, "mat3x4_cast rotation rows err/tol", er, 16 * eps))
			c.failk(key<T>("mat3x4_cast", "rotation-rows", QC_KEY[qc]), "mat3x4_cast(dq(q=wxyz%s,t=%s)): rotation part differs from Rot(q)=%s by %.3Lg", astr(q1, 4).c_str(), astr(p1, 3).c_str(), mstr(rot).c_str(), er);
		if (!within(c, "mat3x4_cast translation column err/tol", et, (32 * eps + 2 * d1) * tn1 + TINY<T>()))
			c.failk(key<T>("mat3x4_cast", "translation", QC_KEY[qc]), "mat3x4_cast(dq(q=wxyz%s,t=%s)): translation (%s,%s,%s)", astr(q1, 4).c_str(), astr(p1, 3).c_str(), fstr(M[0][3]).c_str(), fstr(M[1][3]).c_str(), fstr(M[2][3]).c_str());
		DQ B = glm::dualquat_cast(M);
		Qn br = qn_of(B.real), bd = qn_of(B.dual);
		R sgn = qdot(br, rr) < 0 ? -1 : 1;
		R e1 = qmaxdiff(qscale(br, sgn), rr), e2 = qmaxdiff(qscale(bd, sgn), rd);
		{ int bi = 0; for (int i = 1; i < 4; ++i) if (std::fabs(q1[i]) > std::fabs(q1[bi])) bi = i; static const char* const BN[] = {"dualquat_cast: |w| largest", "dualquat_cast: |x| largest", "dualquat_cast: |y| largest", "dualquat_cast: |z| largest"}; c.cls(BN[bi]); if (std::fabs(q1[0]) > 0.5) c.cls("dualquat_cast: trace > 0 branch"); }
		if (!within(c, "dualquat_cast(mat3x4_cast(dq)) real err/tol", e1, 32 * eps + 2 * d1) || !within(c, "dualquat_cast(mat3x4_cast(dq)) dual err/tol", e2, (48 * eps + 2 * d1) * (1 + tn1)))
			c.failk(key<T>("dualquat_cast(mat3x4)", "round-trip", QC_KEY[qc]), "dualquat_cast(mat3x4_cast(dq))=(%s,%s), dq=(%s,%s)", gq(B.real).c_str(), gq(B.dual).c_str(), gq(D1.real).c_str(), gq(D1.dual).c_str());
		// independent of mat3x4_cast: the rounded exact [Rot(q) | t]
		glm::mat<3, 4, T> ME;
		for (int i = 0; i < 3; ++i) { for (int j = 0; j < 3; ++j) ME[i][j] = (T)rot.m[i][j]; ME[i][3] = p1[i]; }
		DQ B2 = glm::dualquat_cast(ME);
		V3 img = apply_ref(qn_of(B2.real), qn_of(B2.dual), rv), wimg = vadd(mvec(rot, rv), t1);
		if (!within(c, "dualquat_cast([Rot|t]) acts like the matrix err/tol", vmaxabs(vsub(img, wimg)), 64 * eps * (vn + tn1) + TINY<T>()))
			c.failk(key<T>("dualquat_cast(mat3x4)", "acts-like-the-matrix", QC_KEY[qc]), "dualquat_cast([Rot(q)|t])=(%s,%s) maps v=%s to %s, the matrix maps it to %s (q=wxyz%s t=%s)", gq(B2.real).c_str(), gq(B2.dual).c_str(), astr(v, 3).c_str(), vstr(img).c_str(), vstr(wimg).c_str(), astr(q1, 4).c_str(), astr(p1, 3).c_str());
		DQ C3(M);
		if (!bits_q(C3.real, B.real) || !bits_q(C3.dual, B.dual)) c.failk(key<T>("tdualquat(mat3x4)", "equals-dualquat_cast"), "tdualquat(mat3x4) differs from dualquat_cast");
		glm::mat<2, 4, T> M2 = glm::mat2x4_cast(D1);
		DQ B4 = glm::dualquat_cast(M2), C4(M2);
		if (!bits_q(B4.real, D1.real) || !bits_q(B4.dual, D1.dual) || !bits_q(C4.real, D1.real) || !bits_q(C4.dual, D1.dual))
			c.failk(key<T>("dualquat_cast(mat2x4)", "round-trip"), "dualquat_cast(mat2x4_cast(dq))=(%s,%s), dq=(%s,%s)", gq(B4.real).c_str(), gq(B4.dual).c_str(), gq(D1.real).c_str(), gq(D1.dual).c_str());
		// the 2x4 matrix holds exactly the eight numbers of the two parts, real part in column 0 (the order inside a column is not documented)
		for (int h = 0; h < 2; ++h) {
			const glm::qua<T>& part = h ? D1.dual : D1.real;
			T have[4] = {part.w, part.x, part.y, part.z}, got[4] = {M2[h][0], M2[h][1], M2[h][2], M2[h][3]};
			bool used[4] = {false, false, false, false}, ok = true;
			for (int i = 0; i < 4 && ok; ++i) { int f = -1; for (int j = 0; j < 4; ++j) if (!used[j] && fp::same_bits(got[i], have[j])) { f = j; break; } if (f < 0) ok = false; else used[f] = true; }
			if (!ok) c.failk(key<T>("mat2x4_cast", "columns-hold-the-parts"), "column %d of mat2x4_cast is %s, the %s part is wxyz%s", h, astr(got, 4).c_str(), h ? "dual" : "real", astr(have, 4).c_str());
		}
	}
	// (f) component-wise operators
	{
		T s = c.coin() ? (T)std::ldexp(1.0, (int)c.range(-3, 3)) : fp::gen_moderate<T>(c, 4, 4);
		if (s == 0) s = 3;
		auto eqq = [&](const glm::qua<T>& a, T e0, T e1, T e2, T e3) { return fp::same_value(a.w, e0) && fp::same_value(a.x, e1) && fp::same_value(a.y, e2) && fp::same_value(a.z, e3); };
		const glm::qua<T>&a = D1.real, &ad = D1.dual, &b = D2.real, &bd = D2.dual;
		DQ S = D1 + D2, N = -D1, Ms = D1 * s, sM = s * D1, Dv = D1 / s, Pl = +D1;
		if (!eqq(S.real, a.w + b.w, a.x + b.x, a.y + b.y, a.z + b.z) || !eqq(S.dual, ad.w + bd.w, ad.x + bd.x, ad.y + bd.y, ad.z + bd.z)) c.failk(key<T>("dualquat+dualquat", "component-wise"), "dq1+dq2 is not the component-wise sum");
		if (!eqq(N.real, -a.w, -a.x, -a.y, -a.z) || !eqq(N.dual, -ad.w, -ad.x, -ad.y, -ad.z)) c.failk(key<T>("-dualquat", "component-wise"), "-dq is not the component-wise negation");
		if (!eqq(Ms.real, a.w * s, a.x * s, a.y * s, a.z * s) || !eqq(Ms.dual, ad.w * s, ad.x * s, ad.y * s, ad.z * s)) c.failk(key<T>("dualquat*scalar", "component-wise"), "dq*s is not component-wise");
		if (!eqq(sM.real, a.w * s, a.x * s, a.y * s, a.z * s) || !eqq(sM.dual, ad.w * s, ad.x * s, ad.y * s, ad.z * s)) c.failk(key<T>("scalar*dualquat", "component-wise"), "s*dq is not component-wise");
		if (!eqq(Dv.real, a.w / s, a.x / s, a.y / s, a.z / s) || !eqq(Dv.dual, ad.w / s, ad.x / s, ad.y / s, ad.z / s)) c.failk(key<T>("dualquat/scalar", "component-wise"), "dq/s is not component-wise");
		if (!bits_q(Pl.real, a) || !bits_q(Pl.dual, ad)) c.failk(key<T>("+dualquat", "identity"), "+dq changed the value");
		DQ t = D1; t *= s; if (!eqq(t.real, a.w * s, a.x * s, a.y * s, a.z * s) || !eqq(t.dual, ad.w * s, ad.x * s, ad.y * s, ad.z * s)) c.failk(key<T>("dualquat*=scalar", "component-wise"), "dq*=s is not component-wise");
		t = D1; t /= s; if (!eqq(t.real, a.w / s, a.x / s, a.y / s, a.z / s) || !eqq(t.dual, ad.w / s, ad.x / s, ad.y / s, ad.z / s)) c.failk(key<T>("dualquat/=scalar", "component-wise"), "dq/=s is not component-wise");
		{  // conversion constructors: another qualifier (same element type) and the other element type keep both parts in place
			glm::tdualquat<T, glm::mediump> Mq(D1); glm::tdualquat<T, glm::lowp> Lq(Mq); DQ back(Lq);
			if (!bits_q(back.real, a) || !bits_q(back.dual, ad)) c.failk(key<T>("dualquat(dualquat<T,P>)", "qualifier-conversion"), "converting dq through mediump and lowp changed it: real %s dual %s, expected real %s dual %s", gq(back.real).c_str(), gq(back.dual).c_str(), gq(a).c_str(), gq(ad).c_str());
			typedef typename std::conditional<std::is_same<T, float>::value, double, float>::type UT;
			glm::tdualquat<UT, glm::defaultp> Uq(D1);
			if (!fp::same_value((T)Uq.real.w, (T)(UT)a.w) || !fp::same_value((T)Uq.real.x, (T)(UT)a.x) || !fp::same_value((T)Uq.real.z, (T)(UT)a.z) || !fp::same_value((T)Uq.dual.w, (T)(UT)ad.w) || !fp::same_value((T)Uq.dual.y, (T)(UT)ad.y) || !fp::same_value((T)Uq.dual.z, (T)(UT)ad.z))
				c.failk(key<T>("dualquat(dualquat<U,Q>)", "element-type-conversion"), "converting dq to the other element type moved components: real.w %g dual.w %g, expected %g %g", (double)Uq.real.w, (double)Uq.dual.w, (double)a.w, (double)ad.w);
		}
		DQ e = D1;
		if (!(e == D1) || (e != D1)) c.failk(key<T>("dualquat==dualquat", "reflexive"), "dq == dq is false");
		int k = (int)c.draw(8);
		T* comp[8] = {&e.real.w, &e.real.x, &e.real.y, &e.real.z, &e.dual.w, &e.dual.x, &e.dual.y, &e.dual.z};
		*comp[k] = fp::from_ordered<T>(fp::ordered(*comp[k]) + 1);
		if ((e == D1) || !(e != D1)) c.failk(key<T>("dualquat==dualquat", "one-component-differs"), "dq == dq' although component %d differs by one ulp", k);
	}
}
REG2(dualquat, "dual-quaternion", 300000, 7500000,
     "two rigid transforms (unit quaternion of every class + translation 2^-6..2^6 / small ints / axis-aligned / zero) and a vec3; tdualquat(q,t) parts, dq*v against the long-double polynomial P(r) v + 2 vec(d r*) and against Rot(q) v + t, "
     "v*dq and inverse(dq) against the inverse transform, (dq1 dq2) v = dq1 (dq2 v) = reference composition, mat3x4_cast rows = [Rot | t], dualquat_cast(mat3x4) round trip (all four branches) and on the rounded exact matrix, mat2x4 round trip "
     "bit for bit, component-wise operators and ==/!= exactly; non-trivial = rotation not ~identity, translation non-zero, v not along the rotation axis");

// =====================================================================================================================
// exp / log / pow / sqrt.
//   log q = (ln|q|, th n), th = atan2(|u|, w): the vector part is th/|u| * u (relative error ~4u), the real part ln(|q|^2)/2 (absolute ~2u + |d|/2).
//   exp(w + u) = e^w (cos|u|, sin|u| u/|u|); |u| < eps: e^w (1, u) to first order.
//   pow(q, y) = |q|^y (cos y th, n sin y th): th carries ~4u relative error (asin/acos branch at |w|/|q| = cos(1/2)), amplified by |y|.
template <class T> static void explog(pbt::Ctx& c) {
	T q[4];
	int qc = gen_unit_quat<T>(c, q);
	bool unit = c.draw(4) != 0;
	T sc = 1;
	if (!unit) { sc = c.coin() ? (T)std::ldexp(1.0, (int)c.range(-4, 4)) : (T)c.loguniform(1.0 / 16, 16.0); for (int i = 0; i < 4; ++i) q[i] *= sc; }
	static const double YS[] = {1.0, 2.0, 0.5, -1.0, 3.0, -2.0, 0.25, 1.5, -0.5, 0.0};
	T y = c.coin() ? (T)YS[c.draw(10)] : (T)c.uniform(-3.0, 3.0);
	c.cls(QC_NAME[qc]); c.cls(unit ? "unit q" : "scaled q (|q| in 1/16..16)");
	if (c.verbose) c.logf("q=wxyz%s y=%s (%s,%s)", astr(q, 4).c_str(), fstr(y).c_str(), QC_KEY[qc], unit ? "unit" : "scaled");
	const R eps = EPS<T>(), u = U<T>();
	Qn rq = qn_of_arr(q);
	const R n = qnorm(rq), s = vnorm(qvec(rq)), th = atan2l(s, rq.w);
	V3 ax = s > 0 ? vscale(qvec(rq), 1 / s) : V3{0, 0, 0};
	if (s > 1e-3L * n) c.nontrivial();
	glm::qua<T> Q = GQ(q);
	// branch of pow(): asin for |w|/|q| > cos(1/2), decided in T; within 64 eps of the branch point the class of the asin side is reported
	const R CH = 0.8775825618903727161162815826L, band = 64 * eps;
	const int wk = rq.w < -(CH - band) * n ? 0 : (rq.w > (CH + band) * n ? 1 : 2);
	const char* wcls = wk == 0 ? "w<-cos(1/2)|q|" : (wk == 1 ? "w>cos(1/2)|q|" : "|w|<=cos(1/2)|q|");
	c.cls(wk == 0 ? "pow/log: w < -cos(1/2)|q| (asin branch, half angle > pi/2)" : (wk == 1 ? "pow/log: w > cos(1/2)|q| (asin branch)" : "pow/log: acos branch"));
	if (rabs(rabs(rq.w) - CH * n) < 1e-3L * n) c.cls("pow: |w|/|q| within 1e-3 of the branch point cos(1/2)");
	const bool tinyvec = s < (R)std::numeric_limits<T>::epsilon();
	// ---- log
	glm::qua<T> L = glm::log(Q);
	{
		Qn g = qn_of(L);
		if (tinyvec) {
			c.cls("log: |xyz| < eps (real-axis rule)");
			// documented special case: (ln|w|, 0,0,0) for w > 0, (ln|w|, pi, 0, 0) for w < 0 (one of the logarithms of a negative real)
			R e = rmax(rabs(g.w - logl(rabs(rq.w))), rq.w > 0 ? rmax(rabs(g.x), rmax(rabs(g.y), rabs(g.z))) : rmax(rabs(g.x - PI), rmax(rabs(g.y), rabs(g.z))));
			if (!within(c, "log(q) real-axis err/tol", e, 8 * eps * (1 + rabs(logl(rabs(rq.w))))))
				c.failk(key<T>("log", "real-axis", rq.w > 0 ? "w>0" : "w<0"), "log(wxyz%s)=%s", astr(q, 4).c_str(), gq(L).c_str());
		} else {
			R want_w = logl(n);
			V3 want_v = vscale(ax, th);
			R ev = vmaxabs(vsub(qvec(g), want_v));
			if (!within(c, "log(q) real part err/tol", rabs(g.w - want_w), 8 * eps * (1 + rabs(want_w))) || !within(c, "log(q) vector part err/tol", ev, 16 * eps * th + TINY<T>()))
				c.failk(key<T>("log", "ln-norm-and-angle-times-axis", wcls), "log(wxyz%s)=%s, expected (%.12Lg, %s)", astr(q, 4).c_str(), gq(L).c_str(), want_w, vstr(want_v).c_str());
		}
	}
	// ---- exp on a pure quaternion (the logarithm of a rotation) and exp(log(q)) = q / |q|... = q for unit q
	{
		T p[4] = {0, L.x, L.y, L.z};
		glm::qua<T> E = glm::exp(GQ(p));
		V3 pv{(R)p[1], (R)p[2], (R)p[3]};
		R a = vnorm(pv);
		Qn want = a > 0 ? Qn{cosl(a), pv.x * sinl(a) / a, pv.y * sinl(a) / a, pv.z * sinl(a) / a} : Qn{1, 0, 0, 0};
		R e = qmaxdiff(qn_of(E), want);
		const bool small = a < (R)std::numeric_limits<T>::epsilon();
		c.cls(small ? "exp: |xyz| < eps" : "exp: pure quaternion, |xyz| >= eps");
		if (!within(c, small ? "exp(pure q, |xyz|<eps) err/tol" : "exp(pure q) err/tol", e, 16 * eps * (1 + a)))
			c.failk(key<T>("exp", "pure-quaternion", small ? "|xyz|<eps" : "general"), "exp(wxyz%s)=%s, expected %s", astr(p, 4).c_str(), gq(E).c_str(), qstr(want).c_str());
		if (!small && !tinyvec) {
			Qn unitq = qscale(rq, 1 / n);
			R e2 = qmaxdiff(qn_of(E), unitq);
			if (!within(c, "exp(vector part of log q) vs q/|q| err/tol", e2, 32 * eps * (1 + th)))
				c.failk(key<T>("exp(log)", "round-trip", wcls), "exp(vec(log(q)))=%s for q=wxyz%s, q/|q|=%s", gq(E).c_str(), astr(q, 4).c_str(), qstr(unitq).c_str());
		}
		// exponential of a quaternion with a real part: e^w (cos|u|, u sin|u|/|u|); exp(log q) = q for every non-zero q
		if (!unit && !tinyvec) {
			glm::qua<T> F = glm::exp(L);
			R e3 = qmaxdiff(qn_of(F), rq) / n;
			c.cls("exp: real part != 0");
			if (!within(c, "exp(log(q)) vs q (non-unit q) err/tol", e3, 32 * eps * (1 + th + rabs(logl(n)))))
				c.failk(key<T>("exp", "real-part-nonzero"), "exp(log(q))=%s for q=wxyz%s (|q|=%.9Lg): exp(w + u) = e^w (cos|u|, u sin|u|/|u|)", gq(F).c_str(), astr(q, 4).c_str(), n);
		}
	}
	// ---- pow, sqrt
	{
		const bool yzero = std::fabs(y) < std::numeric_limits<T>::epsilon();
		const bool realq = (R)q[1] * q[1] + (R)q[2] * q[2] + (R)q[3] * q[3] < (R)std::numeric_limits<T>::min() * 4;
		if (realq && rq.w < 0 && y != std::floor(y)) { c.cls("pow: negative real q with non-integer y (no unique value, not compared)"); }
		else {
			glm::qua<T> Pw = glm::pow(Q, y);
			R mag = powl(n, (R)y);
			Qn want = yzero ? Qn{1, 0, 0, 0} : Qn{mag * cosl((R)y * th), mag * ax.x * sinl((R)y * th), mag * ax.y * sinl((R)y * th), mag * ax.z * sinl((R)y * th)};
			if (realq && !yzero) want = Qn{powl(rq.w, (R)y), 0, 0, 0};
			R e = qmaxdiff(qn_of(Pw), want) / (yzero ? 1 : mag);
			// th is computed from asin/acos of a quotient with relative error ~3u: conditioning 1/|w| resp. 1/|u| at the branch point <= 2.1; amplified by |y|; plus |y ln|q|| u from pow()
			R tol = 16 * eps * (1 + rabs((R)y) * (1 + th)) * (1 + rabs((R)y * logl(n)));
			static const char* const PM[] = {"pow(q,y) err/tol [w < -cos(1/2)|q|]", "pow(q,y) err/tol [w > cos(1/2)|q|]", "pow(q,y) err/tol [acos branch]"};
			static const char* const SM[] = {"sqrt(q)^2 vs q err/tol [w < -cos(1/2)|q|]", "sqrt(q)^2 vs q err/tol [w > cos(1/2)|q|]", "sqrt(q)^2 vs q err/tol [acos branch]"};
			if (!within(c, PM[wk], e, tol))
				c.failk(key<T>("pow", yzero ? "y~0" : "principal-power", wcls), "pow(wxyz%s, %s)=%s, |q|^y (cos y th, n sin y th)=%s (th=%.9Lg, err %.3Lg, tol %.3Lg)", astr(q, 4).c_str(), fstr(y).c_str(), gq(Pw).c_str(), qstr(want).c_str(), th, e, tol);
			glm::qua<T> Sq = glm::sqrt(Q);
			if (!(realq && rq.w < 0)) {
				Qn s2 = qmul(qn_of(Sq), qn_of(Sq));
				R e2 = qmaxdiff(s2, rq) / n;
				if (!within(c, SM[wk], e2, 32 * eps * (1 + th)))
					c.failk(key<T>("sqrt", "squares-to-q", wcls), "sqrt(wxyz%s)=%s, its square is %s", astr(q, 4).c_str(), gq(Sq).c_str(), qstr(s2).c_str());
				if (qn_of(Sq).w < -32 * eps * sqrtl(n)) c.failk(key<T>("sqrt", "principal-root-w>=0", wcls), "sqrt(wxyz%s)=%s has a negative real part", astr(q, 4).c_str(), gq(Sq).c_str());
			}
		}
	}
	(void)u;
}
REG2(explog, "exp-log-pow", 300000, 7500000,
     "quaternions of every class, three quarters unit and one quarter scaled to |q| in 1/16..16, exponent y from {1,2,1/2,-1,3,-2,1/4,3/2,-1/2,0} or uniform [-3,3]; log q against (ln|q|, atan2(|xyz|,w) xyz/|xyz|) and the documented real-axis rule, "
     "exp of the pure logarithm against (cos|u|, u sin|u|/|u|) incl. |u| < eps, exp(log q) = q also for non-unit q, pow(q,y) against |q|^y (cos y th, n sin y th) for both angle branches and w < 0, sqrt(q)^2 = q with non-negative real part; "
     "non-trivial = |xyz| > 1e-3 |q|");

// =====================================================================================================================
// quatLookAt / quatLookAtRH / quatLookAtLH: the rotation whose matrix has third column -direction (RH) resp. +direction (LH), first column
// along up x (third column), second column completing the right-handed basis; direction is unit, up is not parallel to it.
template <class T> static void lookat(pbt::Ctx& c) {
	T d[3], up[3];
	gen_unit_vec3<T>(c, d);
	V3 rd = vunit(v3_of_arr(d));
	{  // up: (0,1,0) typically; otherwise a vector at >= 0.05 rad from +-direction, length 0.5..2
		int k = (int)c.draw(3);
		V3 t = k == 0 ? V3{0, 1, 0} : vscale(gen_dir(c), (R)c.uniform(0.5, 2.0));
		if (vnorm(vcross(t, rd)) < 0.05L * vnorm(t)) { t = rabs(rd.y) < 0.9L ? V3{0, 1, 0} : V3{1, 0, 0}; }
		up[0] = (T)t.x; up[1] = (T)t.y; up[2] = (T)t.z;
	}
	if (c.verbose) c.logf("direction=%s up=%s", astr(d, 3).c_str(), astr(up, 3).c_str());
	const R eps = EPS<T>();
	V3 ru = v3_of_arr(up);
	const R sn = vnorm(vcross(vunit(ru), rd));
	c.nontrivial();
	glm::vec<3, T> D = GV(d), UP = GV(up);
	for (int lh = 0; lh < 2; ++lh) {
		glm::qua<T> g = lh ? glm::quatLookAtLH(D, UP) : glm::quatLookAtRH(D, UP);
		V3 c2 = lh ? rd : vscale(rd, -1);
		V3 c0 = vunit(vcross(ru, c2)), c1 = vcross(c2, c0);
		M3 want; for (int i = 0; i < 3; ++i) { want.m[i][0] = vget(c0, i); want.m[i][1] = vget(c1, i); want.m[i][2] = vget(c2, i); }
		M3 got = qrot(qn_of(g));
		R e = mmaxdiff(got, want), tol = 32 * eps * (1 + 1 / sn);
		if (!within(c, "quatLookAt basis err/tol", e, tol))
			c.failk(key<T>(lh ? "quatLookAtLH" : "quatLookAtRH", "basis"), "%s(direction=%s, up=%s)=%s rotates to %s, expected columns (right, up', %sdirection) = %s (err %.3Lg, tol %.3Lg)", lh ? "quatLookAtLH" : "quatLookAtRH", astr(d, 3).c_str(), astr(up, 3).c_str(), gq(g).c_str(), mstr(got).c_str(), lh ? "+" : "-", mstr(want).c_str(), e, tol);
		R len = qnorm(qn_of(g));
		if (!within(c, "quatLookAt |len-1| err/tol", rabs(len - 1), tol)) c.failk(key<T>(lh ? "quatLookAtLH" : "quatLookAtRH", "unit-length"), "quatLookAt(direction=%s, up=%s)=%s has length %.17Lg", astr(d, 3).c_str(), astr(up, 3).c_str(), gq(g).c_str(), len);
		// documented mapping: the -z axis (RH) / +z axis (LH) is mapped onto direction
		V3 img = mvec(got, V3{0, 0, lh ? 1.0L : -1.0L});
		if (!within(c, "quatLookAt maps -+z to direction err/tol", vmaxabs(vsub(img, rd)), tol))
			c.failk(key<T>(lh ? "quatLookAtLH" : "quatLookAtRH", "z-axis-to-direction"), "quatLookAt(direction=%s, up=%s) maps the %sz axis to %s", astr(d, 3).c_str(), astr(up, 3).c_str(), lh ? "+" : "-", vstr(img).c_str());
	}
	// default handedness: right-handed unless GLM_FORCE_LEFT_HANDED
	if (!bits_q(glm::quatLookAt(D, UP), glm::quatLookAtRH(D, UP))) c.failk(key<T>("quatLookAt", "default-is-RH"), "quatLookAt differs from quatLookAtRH in a right-handed configuration");
}
REG2(lookat, "quat-look-at", 200000, 5000000,
     "unit direction (coordinate axis exactly / within 1e-9..1e-2 / random) and an up vector ((0,1,0) or random of length 0.5..2, at least 0.05 rad from +-direction); quatLookAtRH/LH as rotations against the orthonormal basis "
     "(normalise(up x f), f x right, f) with f = -+direction, unit length, -z (RH) / +z (LH) mapped onto direction, quatLookAt = RH variant; conditioning 1/sin(angle(up,direction)); every case is non-trivial");

// =====================================================================================================================
// Component order, constructors and relational functions of glm::qua: operator[] follows the storage order (x,y,z,w by default, w,x,y,z with
// GLM_FORCE_QUAT_DATA_WXYZ), everything named (w, x, y, z, the (w,x,y,z) constructor, wxyz(), (s, vec3)) is independent of it.
template <class T> static void storage(pbt::Ctx& c) {
	T q[4], r[4];
	for (int i = 0; i < 4; ++i) { q[i] = fp::gen_float<T>(c, fp::FD_FINITE); r[i] = c.draw(3) == 0 ? q[i] : fp::gen_float<T>(c, fp::FD_FINITE); }
	if (c.verbose) c.logf("q=wxyz%s r=wxyz%s", astr(q, 4).c_str(), astr(r, 4).c_str());
	{ bool distinct = true; for (int i = 0; i < 4; ++i) for (int j = 0; j < i; ++j) if (q[i] == q[j]) distinct = false; if (distinct) c.nontrivial(); }
#ifdef GLM_FORCE_QUAT_DATA_WXYZ
	static const int ORD[4] = {0, 1, 2, 3};  // storage slot -> index into (w,x,y,z)
	c.cls("storage order w,x,y,z");
#else
	static const int ORD[4] = {1, 2, 3, 0};
	c.cls("storage order x,y,z,w");
#endif
	glm::qua<T> Q = GQ(q), Rq = GQ(r);
	const T* raw = reinterpret_cast<const T*>(&Q);
	for (int i = 0; i < 4; ++i) {
		if (!fp::same_bits(Q[i], q[ORD[i]])) c.failk(key<T>("qua[]", "storage-order"), "q[%d]=%s for q=wxyz%s in a %s build", i, fstr(Q[i]).c_str(), astr(q, 4).c_str(), C04_CFG);
		if (&Q[i] != raw + i) c.failk(key<T>("qua[]", "address"), "&q[%d] is not the %d-th stored component", i, i);
		if (!fp::same_bits(raw[i], q[ORD[i]])) c.failk(key<T>("qua", "memory-order"), "stored component %d is %s for q=wxyz%s in a %s build", i, fstr(raw[i]).c_str(), astr(q, 4).c_str(), C04_CFG);
	}
	{
		glm::qua<T> W = Q; int k = (int)c.draw(4); W[k] = r[0];
		T e[4] = {q[0], q[1], q[2], q[3]}; e[ORD[k]] = r[0];
		if (!(fp::same_bits(W.w, e[0]) && fp::same_bits(W.x, e[1]) && fp::same_bits(W.y, e[2]) && fp::same_bits(W.z, e[3]))) c.failk(key<T>("qua[]", "write"), "q[%d]=v changed q=wxyz%s into %s", k, astr(q, 4).c_str(), gq(W).c_str());
	}
	auto same = [&](const char* fn, const glm::qua<T>& g) { if (!(fp::same_bits(g.w, q[0]) && fp::same_bits(g.x, q[1]) && fp::same_bits(g.y, q[2]) && fp::same_bits(g.z, q[3]))) c.failk(key<T>(fn, "named-components"), "%s built from (w,x,y,z)=%s holds %s", fn, astr(q, 4).c_str(), gq(g).c_str()); };
	same("qua(w,x,y,z)", glm::qua<T>(q[0], q[1], q[2], q[3]));
	same("qua::wxyz", glm::qua<T>::wxyz(q[0], q[1], q[2], q[3]));
	{ glm::vec<3, T> v; v.x = q[1]; v.y = q[2]; v.z = q[3]; same("qua(s,vec3)", glm::qua<T>(q[0], v)); }
	same("qua(qua)", glm::qua<T>(Q));
	{ glm::qua<T, glm::mediump> m(Q); same("qua<mediump>(qua)", glm::qua<T>(m)); }
	{ glm::qua<T> a; a = Q; same("qua=qua", a); }
	{  // conversion between float and double: component-wise static_cast
		typedef typename std::conditional<sizeof(T) == 4, double, float>::type O;
		glm::qua<O> o(Q);
		if (!(fp::same_bits(o.w, (O)q[0]) && fp::same_bits(o.x, (O)q[1]) && fp::same_bits(o.y, (O)q[2]) && fp::same_bits(o.z, (O)q[3]))) c.failk(key<T>("qua<U>(qua<T>)", "component-wise-cast"), "conversion of wxyz%s changed the component order or value", astr(q, 4).c_str());
		glm::qua<O> o2; o2 = Q;
		if (!(fp::same_bits(o2.w, (O)q[0]) && fp::same_bits(o2.x, (O)q[1]) && fp::same_bits(o2.y, (O)q[2]) && fp::same_bits(o2.z, (O)q[3]))) c.failk(key<T>("qua<U>=qua<T>", "component-wise-cast"), "converting assignment of wxyz%s changed the component order or value", astr(q, 4).c_str());
	}
	{ glm::qua<T> id = glm::quat_identity<T, glm::defaultp>(); if (!(id.w == 1 && id.x == 0 && id.y == 0 && id.z == 0)) c.failk(key<T>("quat_identity", "value"), "quat_identity()=%s", gq(id).c_str()); }
	{  // component-wise comparisons: result[i] compares the i-th stored components
		glm::vec<4, bool> lt = glm::lessThan(Q, Rq), le = glm::lessThanEqual(Q, Rq), gt = glm::greaterThan(Q, Rq), ge = glm::greaterThanEqual(Q, Rq);
		for (int i = 0; i < 4; ++i) {
			T a = q[ORD[i]], b = r[ORD[i]];
			if (lt[i] != (a < b) || le[i] != (a <= b) || gt[i] != (a > b) || ge[i] != (a >= b))
				c.failk(key<T>("lessThan-family(quat)", "component-wise"), "comparison of stored component %d (%s vs %s): lt=%d le=%d gt=%d ge=%d", i, fstr(a).c_str(), fstr(b).c_str(), (int)lt[i], (int)le[i], (int)gt[i], (int)ge[i]);
		}
	}
	{  // isnan / isinf: one flag per component (the order of the flags is not documented: only their number and existence are compared)
		T s[4] = {q[0], q[1], q[2], q[3]};
		int nn = 0, ni = 0;
		for (int i = 0; i < 4; ++i) { int k = (int)c.draw(6); if (k == 0) { s[i] = std::numeric_limits<T>::quiet_NaN(); ++nn; } else if (k == 1) { s[i] = c.coin() ? std::numeric_limits<T>::infinity() : -std::numeric_limits<T>::infinity(); ++ni; } }
		glm::qua<T> S = GQ(s);
		glm::vec<4, bool> fn = glm::isnan(S), fi = glm::isinf(S);
		int gn = 0, gi = 0; for (int i = 0; i < 4; ++i) { gn += fn[i]; gi += fi[i]; }
		if (gn != nn || gi != ni) c.failk(key<T>("isnan-isinf(quat)", "flag-count"), "wxyz%s: %d NaN flags (expected %d), %d inf flags (expected %d)", astr(s, 4).c_str(), gn, nn, gi, ni);
	}
}
REG2(storage, "components-and-constructors", 200000, 5000000,
     "two quaternions of arbitrary finite floats (specials, powers of two, raw bit patterns); operator[] and the raw memory must hold the components in the storage order of the build (x,y,z,w or w,x,y,z), writes through [] hit the same "
     "component, the (w,x,y,z) constructor, wxyz(), (s,vec3), copy/qualifier/precision conversions and assignment are independent of the storage order, lessThan/lessThanEqual/greaterThan/greaterThanEqual compare the i-th stored components, "
     "isnan/isinf raise one flag per NaN/inf component; non-trivial = four pairwise distinct components");
