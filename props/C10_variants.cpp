// C10 (part 2 of 2) — gtc affineInverse, operator/ (mat/mat, mat/vec, vec/mat, /=, scalar forms), gtx qr_decompose / rq_decompose,
// gtx matrix_query (isNull, isIdentity, isNormalized, isOrthogonal), gtx diagonalCxR / fliplr / flipud.
// Oracle: engine/ref/refmat.hpp (__float128 / long double cofactor inverse with running bounds); every product with an inverse is bounded by
//   sum_j |a_j| (tol_inv_j + 8 n u (|inv_j| + tol_inv_j))   (entry bound of the documented formula carried through the rounded product).
#include "fp.hpp"
#include "ref/refmat.hpp"
#include <glm/glm.hpp>
#include <glm/gtc/matrix_inverse.hpp>
#include <glm/gtx/matrix_operation.hpp>
#include <glm/gtx/matrix_query.hpp>
#include <glm/gtx/matrix_factorisation.hpp>

using namespace refmat;

static const char* const CK[] = {"small-integer", "unimodular", "permutation-like", "triangular", "svd", "near-singular", "random", "symmetric-diagonal"};

template <int C, int RW, class T> static glm::mat<C, RW, T, glm::defaultp> GM(const T m[4][4]) {
	glm::mat<C, RW, T, glm::defaultp> r(T(0));
	for (int c = 0; c < C; ++c) for (int k = 0; k < RW; ++k) r[c][k] = m[c][k];
	return r;
}
template <int N, class T> static glm::mat<N, N, T, glm::defaultp> G(const T m[4][4]) { return GM<N, N, T>(m); }
template <int C, int RW, class T> static void X(const glm::mat<C, RW, T, glm::defaultp>& g, T m[4][4]) {
	for (int c = 0; c < 4; ++c) for (int k = 0; k < 4; ++k) m[c][k] = (c < C && k < RW) ? g[c][k] : T(0);
}
template <int N, class T> static glm::vec<N, T, glm::defaultp> GV(const T* v) { glm::vec<N, T, glm::defaultp> r(T(0)); for (int i = 0; i < N; ++i) r[i] = v[i]; return r; }
static inline bool within(pbt::Ctx& c, const char* metric, R err, R tol) {
	R r = err == 0 ? 0 : err / tol;
	if (!(r == r)) r = 1e30L;
	c.metric(metric, r < 1e30L ? (double)r : 1e30);
	return err <= tol;
}
// small integer in [-9,9]; draw 0 -> 0, then 1, -1, 2, -2, ... (the shrinker moves towards 0)
static inline int zz(pbt::Ctx& c) { int d = (int)c.draw(19); return (d & 1) ? (d + 1) / 2 : -(d / 2); }
// bound of one entry of a rounded product sum_j a_j * inv_fl_j
template <class T> static inline R term_tol(int n, R a, R inv, R tol) { return rabs(a) * (tol + 8 * n * U<T>() * (rabs(inv) + tol)); }

// =============================================================================================
// affineInverse(M), M = [L t; 0 1]: documented as the inverse for affine matrices = [L^-1  -L^-1 t; 0 1].
template <int N, class T> static void affine(pbt::Ctx& c) {
	T m[4][4];
	GenOpt go; bool want_exact = c.draw(6) == 0;
	go.scale_span = 2; go.capf = 0.125L;  // an affine matrix mixes the scale of L with the fixed 1: keep L near unit scale so that kappa(M) stays in range
	if (want_exact) { go.force = MC_UNIMOD; go.intB = c.coin() ? 4 : (R)max_exact_B<T>(N); }
	int gc = gen_affine<T>(c, N, m, go);
	Ref<T> r; reference(m, N, r);
	T lin[4][4]; for (int a = 0; a < 4; ++a) for (int b = 0; b < 4; ++b) lin[a][b] = (a < N - 1 && b < N - 1) ? m[a][b] : T(0);
	Ref<T> rl; reference(lin, N - 1, rl);
	if (c.verbose) c.logf("M=%s linear part class=%s det=%.9Lg kappa(M)=%.4Lg", mstr(m, N).c_str(), CK[gc], (R)r.det, r.kappa);
	if (r.singular || r.kappa > CAP<T>()) { c.cls("singular or kappa above the cap (discarded)"); c.skip(); return; }
	c.cls(MC_NAME[gc]);
	R B = 0, Bt = 0; bool ints = all_integer(m, N, &B);
	for (int k = 0; k < N - 1; ++k) if (rabs((R)m[N - 1][k]) > Bt) Bt = rabs((R)m[N - 1][k]);
	const bool exact = ints && exact_ok<T>(N - 1, B) && (R)qabs(rl.det) == 1 && (N - 1) * rl.invmax * Bt <= ldexpl(1.0L, std::numeric_limits<T>::digits);
	auto M = G<N, T>(m);
	T a[4][4], gi[4][4]; X<N, N, T>(glm::affineInverse(M), a); X<N, N, T>(glm::inverse(M), gi);
	const bool ok_l = 8 * det_eta<T>(rl) <= 0.5L, ok_m = 8 * det_eta<T>(r) <= 0.5L;
	// last row: exactly (0,..,0,1)
	for (int cc = 0; cc < N; ++cc) if (!(a[cc][N - 1] == (cc == N - 1 ? T(1) : T(0))))
		c.failk("affineInverse/last-row", "affineInverse(%s)[%d][%d]=%.17g, the inverse of an affine matrix has last row (0,..,0,1)", mstr(m, N).c_str(), cc, N - 1, (double)a[cc][N - 1]);
	if (exact) {
		c.cls("exact (unimodular integer) case");
		for (int cc = 0; cc < N; ++cc) for (int k = 0; k < N - 1; ++k) if (!((R)a[cc][k] == (R)r.inv[cc][k]))
			c.failk(cc == N - 1 ? "affineInverse/translation-exact" : "affineInverse/linear-exact", "affineInverse(%s)[%d][%d]=%.17g, exact inverse entry %.17Lg", mstr(m, N).c_str(), cc, k, (double)a[cc][k], (R)r.inv[cc][k]);
		if (!is_diagonal(lin, N - 1) && !is_symmetric(lin, N - 1)) c.nontrivial();
		return;
	}
	if (!ok_l) { c.cls("entry bound vacuous (determinant cancellation)"); return; }
	R worst = 0;
	for (int cc = 0; cc < N; ++cc) for (int k = 0; k < N - 1; ++k) {
		R want = (R)r.inv[cc][k], tol;
		if (cc < N - 1) tol = inv_tol<T>(rl, cc, k);
		else { tol = 8 * DENORM<T>(); for (int j = 0; j < N - 1; ++j) tol += term_tol<T>(N - 1, (R)m[N - 1][j], (R)rl.inv[j][k], inv_tol<T>(rl, j, k)); }
		if (tol / r.invmax > worst) worst = tol / r.invmax;
		if (!within(c, cc < N - 1 ? "affineInverse linear entry err/tol" : "affineInverse translation err/tol", rabs((R)a[cc][k] - want), tol))
			c.failk(std::string(cc < N - 1 ? "affineInverse/linear-part/" : "affineInverse/translation/") + CK[gc], "affineInverse(%s)[%d][%d]=%.17g, inverse entry %.17Lg (bound %.3Lg)", mstr(m, N).c_str(), cc, k, (double)a[cc][k], want, tol);
		if (ok_m && !within(c, "affineInverse - inverse err/tol", rabs((R)a[cc][k] - (R)gi[cc][k]), tol + inv_tol<T>(r, cc, k)))
			c.failk(std::string("affineInverse/equals-inverse/") + CK[gc], "affineInverse(M)[%d][%d]=%.17g but inverse(M)[%d][%d]=%.17g (bound %.3Lg), M=%s", cc, k, (double)a[cc][k], cc, k, (double)gi[cc][k], tol + inv_tol<T>(r, cc, k), mstr(m, N).c_str());
	}
	bool tnz = false; for (int k = 0; k < N - 1; ++k) tnz = tnz || m[N - 1][k] != 0;
	if (worst <= 1e-2L && tnz && !is_diagonal(lin, N - 1) && !is_symmetric(lin, N - 1)) c.nontrivial();
}
#define REG_AFF(N, TY, tname, q, t) \
	static void affine_##N##_##tname(pbt::Ctx& c) { affine<N, TY>(c); } \
	PBT_RANDOM("affine_inverse/mat" #N "/" #tname, affine_##N##_##tname, q, t, \
	           "affine M = [L t; 0 1] with L of every generator class (one sixth integer unimodular with integer t: exact), t up to 2 max|L|, L at scale 2^-2..2^2, kappa_2(M) <= cap; every entry against the reference inverse with the " \
	           "cofactor bound of L carried through -L^-1 t, last row exactly (0..0 1), and against GLM's own inverse(M); non-trivial = L neither diagonal nor symmetric, t != 0, bounds <= 1e-2 max|inverse|")
REG_AFF(3, float, float, 200000, 2500000);
REG_AFF(4, float, float, 200000, 2500000);
REG_AFF(3, double, double, 150000, 2500000);
REG_AFF(4, double, double, 150000, 2500000);

// =============================================================================================
// does an expression denote the object itself? (an operator that returns by value binds to the second overload)
template <class M> static bool same_object(M& ret, M& obj) { return &ret == &obj; }
template <class M> static bool same_object(M&&, M&) { return false; }
// operator/ : A / B = A * inverse(B), B / v = inverse(B) * v, v / B = v * inverse(B), A /= B; B / s and s / B are component-wise.
template <int N, class T> static void division(pbt::Ctx& c) {
	T a[4][4], b[4][4], v[4] = {0, 0, 0, 0};
	GenOpt go; const bool want_exact = c.draw(6) == 0;
	if (want_exact) { go.force = MC_UNIMOD; go.intB = N == 4 && sizeof(T) == 4 ? 6 : 12; }
	int cb = gen_matrix<T>(c, N, b, go);
	Ref<T> rb; reference(b, N, rb);
	R Bb = 0; const bool bints = all_integer(b, N, &Bb);
	const bool small = bints || c.draw(3) == 0;  // integer / small-integer numerators: distinct, readable
	for (int cc = 0; cc < N; ++cc) for (int k = 0; k < N; ++k) a[cc][k] = small ? (T)zz(c) : (T)((R)fp::gen_moderate<T>(c, 4, 4));
	for (int k = 0; k < N; ++k) v[k] = small ? (T)zz(c) : fp::gen_moderate<T>(c, 4, 4);
	T s = small ? (T)c.range(1, 9) : fp::gen_moderate<T>(c, 4, 4); if (s == 0) s = 3;
	if (c.verbose) c.logf("A=%s B=%s (%s, det %.9Lg, kappa %.4Lg) v=%s s=%.9g", mstr(a, N).c_str(), mstr(b, N).c_str(), CK[cb], (R)rb.det, rb.kappa, vstr(v, N).c_str(), (double)s);
	auto A = G<N, T>(a), Bm = G<N, T>(b);
	// scalar forms are defined for every matrix: one correctly rounded division per component
	{
		T q1[4][4], q2[4][4]; X<N, N, T>(Bm / s, q1); X<N, N, T>(s / Bm, q2);
		auto B3 = Bm; B3 /= s; T q3[4][4]; X<N, N, T>(B3, q3);
		for (int cc = 0; cc < N; ++cc) for (int k = 0; k < N; ++k) {
			if (!fp::same_value(q1[cc][k], (T)(b[cc][k] / s))) c.failk("operator/(mat,scalar)/component", "(B / %.9g)[%d][%d]=%.17g, B[%d][%d]/s=%.17g, B=%s", (double)s, cc, k, (double)q1[cc][k], cc, k, (double)(b[cc][k] / s), mstr(b, N).c_str());
			if (!fp::same_value(q2[cc][k], (T)(s / b[cc][k]))) c.failk("operator/(scalar,mat)/component", "(%.9g / B)[%d][%d]=%.17g, s/B[%d][%d]=%.17g, B=%s", (double)s, cc, k, (double)q2[cc][k], cc, k, (double)(s / b[cc][k]), mstr(b, N).c_str());
			if (!fp::same_value(q3[cc][k], (T)(b[cc][k] / s))) c.failk("operator/=(scalar)/component", "(B /= %.9g)[%d][%d]=%.17g, B[%d][%d]/s=%.17g, B=%s", (double)s, cc, k, (double)q3[cc][k], cc, k, (double)(b[cc][k] / s), mstr(b, N).c_str());
		}
	}
	if (rb.singular || rb.kappa > CAP<T>()) { c.cls("divisor singular or kappa above the cap (scalar forms only)"); return; }
	c.cls(MC_NAME[cb]);
	if (!(8 * det_eta<T>(rb) <= 0.5L)) { c.cls("entry bound vacuous (determinant cancellation)"); return; }
	T d[4][4], d2[4][4], mv[4], vm[4];
	X<N, N, T>(A / Bm, d);
	{
		auto A2 = A; const bool self1 = same_object(A2 /= Bm, A2); X<N, N, T>(A2, d2);
		// compound operators return their left operand itself (chained forms such as (A /= B) *= C rely on it)
		if (!self1) c.failk("operator/=(mat)/returns-left-operand", "A /= B does not return a reference to A (N=%d)", N);
		auto B4 = Bm; if (!same_object(B4 /= s, B4)) c.failk("operator/=(scalar)/returns-left-operand", "B /= s does not return a reference to B (N=%d)", N);
	}
	{ auto t1 = Bm / GV<N, T>(v); auto t2 = GV<N, T>(v) / Bm; for (int k = 0; k < N; ++k) { mv[k] = t1[k]; vm[k] = t2[k]; } }
	R Ba = 0; for (int cc = 0; cc < N; ++cc) for (int k = 0; k < N; ++k) if (rabs((R)a[cc][k]) > Ba) Ba = rabs((R)a[cc][k]);
	for (int k = 0; k < N; ++k) if (rabs((R)v[k]) > Ba) Ba = rabs((R)v[k]);
	const bool exact = bints && small && exact_ok<T>(N, Bb) && (R)qabs(rb.det) == 1 && N * Ba * rb.invmax <= ldexpl(1.0L, std::numeric_limits<T>::digits);
	if (exact) c.cls("exact (unimodular divisor, integer numerators) case");
	R worst = 0, scale = 0;
	for (int cc = 0; cc < N; ++cc) for (int k = 0; k < N; ++k) {
		R want = 0, tol = 8 * DENORM<T>();
		for (int j = 0; j < N; ++j) { want += (R)a[j][k] * (R)rb.inv[cc][j]; tol += term_tol<T>(N, (R)a[j][k], (R)rb.inv[cc][j], inv_tol<T>(rb, cc, j)); }
		if (rabs(want) > scale) scale = rabs(want);
		if (tol > worst) worst = tol;
		if (exact) { if (!((R)d[cc][k] == want)) c.failk("operator/(mat,mat)/exact", "(A / B)[%d][%d]=%.17g, exact (A*inverse(B)) entry %.17Lg; A=%s B=%s", cc, k, (double)d[cc][k], want, mstr(a, N).c_str(), mstr(b, N).c_str()); }
		else if (!within(c, "A/B entry err/tol", rabs((R)d[cc][k] - want), tol))
			c.failk(std::string("operator/(mat,mat)/times-inverse/") + CK[cb], "(A / B)[%d][%d]=%.17g, (A*inverse(B)) entry %.17Lg (bound %.3Lg); A=%s B=%s", cc, k, (double)d[cc][k], want, tol, mstr(a, N).c_str(), mstr(b, N).c_str());
		if (!fp::same_value(d[cc][k], d2[cc][k])) c.failk("operator/=(mat)/same-as-operator/", "(A /= B)[%d][%d]=%.17g but (A / B)[%d][%d]=%.17g; A=%s B=%s", cc, k, (double)d2[cc][k], cc, k, (double)d[cc][k], mstr(a, N).c_str(), mstr(b, N).c_str());
	}
	for (int k = 0; k < N; ++k) {
		R w1 = 0, t1 = 8 * DENORM<T>(), w2 = 0, t2 = 8 * DENORM<T>();
		for (int j = 0; j < N; ++j) {
			w1 += (R)rb.inv[j][k] * (R)v[j]; t1 += term_tol<T>(N, (R)v[j], (R)rb.inv[j][k], inv_tol<T>(rb, j, k));   // (inverse(B) * v)[k]
			w2 += (R)v[j] * (R)rb.inv[k][j]; t2 += term_tol<T>(N, (R)v[j], (R)rb.inv[k][j], inv_tol<T>(rb, k, j));   // (v * inverse(B))[k]
		}
		if (t1 > worst) worst = t1;
		if (t2 > worst) worst = t2;
		if (exact) {
			if (!((R)mv[k] == w1)) c.failk("operator/(mat,vec)/exact", "(B / v)[%d]=%.17g, exact (inverse(B)*v) component %.17Lg; B=%s v=%s", k, (double)mv[k], w1, mstr(b, N).c_str(), vstr(v, N).c_str());
			if (!((R)vm[k] == w2)) c.failk("operator/(vec,mat)/exact", "(v / B)[%d]=%.17g, exact (v*inverse(B)) component %.17Lg; B=%s v=%s", k, (double)vm[k], w2, mstr(b, N).c_str(), vstr(v, N).c_str());
			continue;
		}
		if (!within(c, "B/v component err/tol", rabs((R)mv[k] - w1), t1))
			c.failk(std::string("operator/(mat,vec)/inverse-times-v/") + CK[cb], "(B / v)[%d]=%.17g, (inverse(B)*v) component %.17Lg (bound %.3Lg); B=%s v=%s", k, (double)mv[k], w1, t1, mstr(b, N).c_str(), vstr(v, N).c_str());
		if (!within(c, "v/B component err/tol", rabs((R)vm[k] - w2), t2))
			c.failk(std::string("operator/(vec,mat)/v-times-inverse/") + CK[cb], "(v / B)[%d]=%.17g, (v*inverse(B)) component %.17Lg (bound %.3Lg); B=%s v=%s", k, (double)vm[k], w2, t2, mstr(b, N).c_str(), vstr(v, N).c_str());
	}
	bool vdist = true; for (int i = 0; i < N; ++i) for (int j = 0; j < i; ++j) if (v[i] == v[j]) vdist = false;
	if ((exact || worst <= 1e-2L * (scale > 0 ? scale : 1)) && !is_diagonal(b, N) && !is_symmetric(b, N) && !is_symmetric(a, N) && vdist) c.nontrivial();
}
#define REG_DIV(N, TY, tname, q, t) \
	static void division_##N##_##tname(pbt::Ctx& c) { division<N, TY>(c); } \
	PBT_RANDOM("division/mat" #N "/" #tname, division_##N##_##tname, q, t, \
	           "divisor B of every generator class with kappa_2 <= cap (one sixth integer unimodular with integer numerators: exact), numerators A, v small integers or magnitudes 2^-4..2^4; A/B against A*inverse(B), B/v against " \
	           "inverse(B)*v, v/B against v*inverse(B) with the reference inverse and the cofactor bound carried through the product, A/=B identical to A/B, B/s, s/B, B/=s one rounded division per component; " \
	           "non-trivial = B neither diagonal nor symmetric, A not symmetric, v with distinct components (row/column mix-ups visible), bound <= 1e-2 of the result scale")
REG_DIV(2, float, float, 150000, 2000000);
REG_DIV(3, float, float, 150000, 2000000);
REG_DIV(4, float, float, 150000, 2000000);
REG_DIV(2, double, double, 150000, 2000000);
REG_DIV(3, double, double, 100000, 2000000);
REG_DIV(4, double, double, 100000, 2000000);

// =============================================================================================
// orthonormality deviations of the columns (and rows) of an n x n matrix, in long double
struct OrthDev { R len = 0, dot = 0; };  // max | |v|-1 |, max |v_i . v_j|
template <class T> static OrthDev orth_dev(const T q[4][4], int n, bool rows) {
	OrthDev d;
	for (int i = 0; i < n; ++i) for (int j = i; j < n; ++j) {
		R s = 0; for (int k = 0; k < n; ++k) s += rows ? (R)q[k][i] * (R)q[k][j] : (R)q[i][k] * (R)q[j][k];
		if (i == j) { R e = rabs(sqrtl(s) - 1); if (!(e == e)) e = INFINITY; if (e > d.len) d.len = e; }
		else { R e = rabs(s); if (!(e == e)) e = INFINITY; if (e > d.dot) d.dot = e; }
	}
	return d;
}

// qr_decompose / rq_decompose (documented: q*r = in, columns of q orthonormal, r upper triangular; r*q = in, rows of q orthonormal).
// GLM documents modified Gram-Schmidt. Error model (Bjorck 1967): loss of orthogonality |Q^T Q - I| <= c u kappa with c = O(n^2): each of
// the <= n-1 projections of a column costs (n+3) u relative to the column before cancellation, amplified by |a_j| / |a_j orthogonalised| <= kappa;
// the factors r_ij = in_j . q_i inherit the same loss, so |q*r - in|_j <= c u kappa |in_j|.   c = n (n + 3), x8 margin.
template <int N, class T> static void qrrq(pbt::Ctx& c) {
	T m[4][4];
	int gc = gen_matrix<T>(c, N, m);
	Ref<T> r; reference(m, N, r);
	if (c.verbose) c.logf("M=%s class=%s kappa=%.4Lg", mstr(m, N).c_str(), CK[gc], r.kappa);
	if (r.singular || r.kappa > CAP<T>()) { c.cls("singular or kappa above the cap (discarded)"); c.skip(); return; }
	c.cls(MC_NAME[gc]);
	// x64 margin (not x8): one near-rank-one 4x4 double in 1.1e8 thorough cases reached 1.0 of the x8 bound; the documentation promises
	// orthonormal columns without a bound, so the model bound is kept but with room for its constant
	const R u = U<T>(), cN = N * (N + 3), tq = 64 * cN * u * r.kappa;
	if (tq > 1e-2L) c.cls("orthogonality bound vacuous (> 1e-2)");
	else if (!is_diagonal(m, N)) c.nontrivial();
	auto M = G<N, T>(m);
	R coln[4], rown[4];
	for (int j = 0; j < N; ++j) { R s = 0, s2 = 0; for (int k = 0; k < N; ++k) { s += (R)m[j][k] * (R)m[j][k]; s2 += (R)m[k][j] * (R)m[k][j]; } coln[j] = sqrtl(s); rown[j] = sqrtl(s2); }
	for (int pass = 0; pass < 2; ++pass) {
		const char* fn = pass ? "rq_decompose" : "qr_decompose";
		glm::mat<N, N, T, glm::defaultp> Qm(T(-999)), Rm(T(-999));
		if (pass == 0) glm::qr_decompose(M, Qm, Rm); else glm::rq_decompose(M, Rm, Qm);
		T q[4][4], rr[4][4], p[4][4]; X<N, N, T>(Qm, q); X<N, N, T>(Rm, rr);
		if (pass == 0) X<N, N, T>(Qm * Rm, p); else X<N, N, T>(Rm * Qm, p);
		// r upper triangular: entries below the diagonal (row > column) are exactly zero
		for (int cc = 0; cc < N; ++cc) for (int k = cc + 1; k < N; ++k) if (!(rr[cc][k] == 0))
			c.failk(std::string(fn) + "/r-upper-triangular", "%s(%s): r[%d][%d]=%.17g (column %d, row %d) is below the diagonal and must be 0", fn, mstr(m, N).c_str(), cc, k, (double)rr[cc][k], cc, k);
		OrthDev d = orth_dev(q, N, pass == 1);
		R dev = d.len > d.dot ? d.len : d.dot;
		if (!within(c, pass ? "rq: rows of q orthonormal err/tol" : "qr: columns of q orthonormal err/tol", dev, tq))
			c.failk(std::string(fn) + "/q-orthonormal/" + CK[gc], "%s(%s): %s of q deviate from orthonormal by %.6Lg (|len-1| %.3Lg, |dot| %.3Lg; bound %.3Lg at kappa %.4Lg), q=%s", fn, mstr(m, N).c_str(), pass ? "rows" : "columns", dev, d.len, d.dot, tq, r.kappa, mstr(q, N).c_str());
		R worst = 0; int wc = 0, wk = 0;
		for (int cc = 0; cc < N; ++cc) for (int k = 0; k < N; ++k) {
			R sc = pass ? rown[k] : coln[cc];   // qr reproduces column by column, rq row by row
			R e = rabs((R)p[cc][k] - (R)m[cc][k]) / sc;
			if (!(e == e)) e = INFINITY;
			if (e > worst) { worst = e; wc = cc; wk = k; }
		}
		if (!within(c, pass ? "rq: r*q - in err/tol" : "qr: q*r - in err/tol", worst, tq))
			c.failk(std::string(fn) + "/reproduces-input/" + CK[gc], "%s(%s): (%s)[%d][%d]=%.17g, input %.17g (relative to the %s norm: %.3Lg, bound %.3Lg at kappa %.4Lg)", fn, mstr(m, N).c_str(), pass ? "r*q" : "q*r", wc, wk, (double)p[wc][wk], (double)m[wc][wk], pass ? "row" : "column", worst, tq, r.kappa);
		// gtx/matrix_query on q: with eps above every measured deviation isOrthogonal must hold; an eps below the largest one must fail
		OrthDev d2 = orth_dev(q, N, pass == 0);
		R all = std::max(std::max(d.len, d.dot), std::max(d2.len, d2.dot));
		if (all < 0.05L) {
			T hi = (T)(all * 1.25L + 8 * u);
			if (!glm::isOrthogonal(Qm, hi)) c.failk("isOrthogonal/above-deviation", "isOrthogonal(q, %.9g) is false although rows and columns of q are orthonormal within %.6Lg; q=%s", (double)hi, all, mstr(q, N).c_str());
			R big = std::max(std::max(d.dot, d2.dot), std::max(d.len, d2.len) / 2);
			T lo = (T)(big * 0.5L - 8 * u);
			if (lo > 0 && glm::isOrthogonal(Qm, lo)) c.failk("isOrthogonal/below-deviation", "isOrthogonal(q, %.9g) is true although q deviates by |dot| %.6Lg, |len-1| %.6Lg; q=%s", (double)lo, std::max(d.dot, d2.dot), std::max(d.len, d2.len), mstr(q, N).c_str());
		}
	}
}
#define REG_QR(N, TY, tname, q, t) \
	static void qrrq_##N##_##tname(pbt::Ctx& c) { qrrq<N, TY>(c); } \
	PBT_RANDOM("qr_rq/mat" #N "/" #tname, qrrq_##N##_##tname, q, t, \
	           "square M of every generator class with kappa_2 <= cap; qr_decompose: q*r = M column-wise, columns of q orthonormal, r exactly upper triangular; rq_decompose: r*q = M row-wise, rows of q orthonormal, r exactly upper " \
	           "triangular; both within 8 n (n+3) u kappa (modified Gram-Schmidt); isOrthogonal(q, eps) decided by the measured deviation; non-trivial = M not diagonal and the bound <= 1e-2")
REG_QR(2, float, float, 150000, 2000000);
REG_QR(3, float, float, 150000, 2000000);
REG_QR(4, float, float, 150000, 2000000);
REG_QR(2, double, double, 150000, 2000000);
REG_QR(3, double, double, 100000, 2000000);
REG_QR(4, double, double, 100000, 2000000);

// =============================================================================================
// gtx/matrix_query: the doc comments only name the predicates ("is a null / an identity / a normalized / an orthonormalized matrix" within epsilon), so the
// oracle is a band: TRUE is required when the matrix satisfies the predicate within epsilon under every reasonable reading (Frobenius norm <= eps; every
// | |v|-1 | and |dot| <= eps), FALSE when it violates it under every reading (an entry > eps; a | |v|-1 | > 2 eps — the vector isNormalized GLM builds on
// allows 2 eps — or a |dot| > eps); in between either answer is accepted and counted. isIdentity is component-wise and decided exactly.
template <int N, class T> static void query(pbt::Ctx& c) {
	const R u = U<T>();
	R base[4][4]; ident(base);
	int bc = (int)c.draw(5);
	static const char* const BN[] = {"base:identity", "base:orthogonal", "base:zero", "base:scaled-orthogonal", "base:random"};
	if (bc == 1 || bc == 3) { gen_orth(c, N, base); if (bc == 3) { R s = (R)c.loguniform(0.25, 4.0); for (int a = 0; a < N; ++a) for (int b = 0; b < N; ++b) base[a][b] *= s; } }
	else if (bc == 2) { for (int a = 0; a < 4; ++a) for (int b = 0; b < 4; ++b) base[a][b] = 0; }
	else if (bc == 4) { for (int a = 0; a < N; ++a) for (int b = 0; b < N; ++b) base[a][b] = (R)c.uniform(-1.0, 1.0); }
	c.cls(BN[bc]);
	T eps = (T)c.loguniform(sizeof(T) == 4 ? 1e-5 : 1e-12, 0.1);
	if (c.draw(4) == 0) eps = (T)std::ldexp(1.0, -(int)c.range(4, 16));
	static const double F[] = {0, 0.3, 0.7, 0.999, 1.0, 1.001, 1.5, 1.9, 2.1, 3.0, 10.0};
	double f = F[c.draw(11)];
	int mode = (int)c.draw(3);  // 0: one entry, 1: every entry (random fraction of delta), 2: one entry, opposite sign
	int pc = (int)c.draw(N), pk = (int)c.draw(N);
	T m[4][4];
	for (int a = 0; a < 4; ++a) for (int b = 0; b < 4; ++b) {
		R x = (a < N && b < N) ? base[a][b] : 0;
		m[a][b] = (T)x;
		if (a < N && b < N) {
			if (mode == 1) m[a][b] = (T)((R)m[a][b] + (R)eps * f * (R)c.uniform(-1.0, 1.0));
			else if (a == pc && b == pk) m[a][b] = (T)((R)m[a][b] + (mode == 2 ? -1 : 1) * (R)eps * f);
		}
	}
	if (c.verbose) c.logf("M=%s eps=%.9g (%s, perturbation %.4g eps, mode %d at [%d][%d])", mstr(m, N).c_str(), (double)eps, BN[bc], f, mode, pc, pk);
	auto M = G<N, T>(m);
	const R e = (R)eps, mg = 1e-3L;
	// isIdentity: all |m - I| <= eps; the diagonal difference is one rounded subtraction (slack u (|m|+1)), off-diagonal entries are compared exactly
	{
		int truth = 1;
		for (int a = 0; a < N && truth >= 0; ++a) for (int b = 0; b < N; ++b) {
			R dv = rabs((R)m[a][b] - (a == b)), slack = a == b ? u * (rabs((R)m[a][b]) + 1) : 0;
			if (dv > e + slack) { truth = -1; break; }
			if (dv > e - slack) truth = 0;
		}
		bool g = glm::isIdentity(M, eps);
		c.cls(truth > 0 ? "isIdentity: true required" : truth < 0 ? "isIdentity: false required" : "isIdentity: within rounding (either)");
		if (truth && g != (truth > 0)) c.failk(truth > 0 ? "isIdentity/true-required" : "isIdentity/false-required", "isIdentity(%s, %.9g)=%d", mstr(m, N).c_str(), (double)eps, (int)g);
	}
	// isNull
	{
		R fro = 0, mx = 0;
		for (int a = 0; a < N; ++a) for (int b = 0; b < N; ++b) { fro += (R)m[a][b] * (R)m[a][b]; if (rabs((R)m[a][b]) > mx) mx = rabs((R)m[a][b]); }
		fro = sqrtl(fro);
		int truth = fro <= e * (1 - mg) ? 1 : (mx > e * (1 + mg) ? -1 : 0);
		bool g = glm::isNull(M, eps);
		c.cls(truth > 0 ? "isNull: true required" : truth < 0 ? "isNull: false required" : "isNull: between the readings (either)");
		if (truth && g != (truth > 0)) c.failk(truth > 0 ? "isNull/true-required" : "isNull/false-required", "isNull(%s, %.9g)=%d (Frobenius norm %.6Lg, max |entry| %.6Lg)", mstr(m, N).c_str(), (double)eps, (int)g, fro, mx);
	}
	// isNormalized / isOrthogonal
	{
		OrthDev dc = orth_dev(m, N, false), dr = orth_dev(m, N, true);
		R len = std::max(dc.len, dr.len), dot = std::max(dc.dot, dr.dot);
		const R sl = 8 * u;
		int tn = len <= e * (1 - mg) - sl ? 1 : (len > 2 * e * (1 + mg) + sl ? -1 : 0);
		int to = (len <= e * (1 - mg) - sl && dot <= e * (1 - mg) - sl) ? 1 : ((len > 2 * e * (1 + mg) + sl || dot > e * (1 + mg) + sl) ? -1 : 0);
		bool gn = glm::isNormalized(M, eps), go = glm::isOrthogonal(M, eps);
		c.cls(tn > 0 ? "isNormalized: true required" : tn < 0 ? "isNormalized: false required" : "isNormalized: between the readings (either)");
		c.cls(to > 0 ? "isOrthogonal: true required" : to < 0 ? "isOrthogonal: false required" : "isOrthogonal: between the readings (either)");
		if (tn && gn != (tn > 0)) c.failk(tn > 0 ? "isNormalized/true-required" : "isNormalized/false-required", "isNormalized(%s, %.9g)=%d (max | |row or column| - 1 | = %.6Lg)", mstr(m, N).c_str(), (double)eps, (int)gn, len);
		if (to && go != (to > 0)) c.failk(to > 0 ? "isOrthogonal/true-required" : "isOrthogonal/false-required", "isOrthogonal(%s, %.9g)=%d (max | |v| - 1 | = %.6Lg, max |dot| = %.6Lg over rows and columns)", mstr(m, N).c_str(), (double)eps, (int)go, len, dot);
		if (f > 0 && (bc == 0 || bc == 1)) c.nontrivial();  // a perturbed identity / orthogonal matrix: at least one predicate sits near its threshold
	}
}
#define REG_Q(N, TY, tname, q, t) \
	static void query_##N##_##tname(pbt::Ctx& c) { query<N, TY>(c); } \
	PBT_RANDOM("matrix_query/mat" #N "/" #tname, query_##N##_##tname, q, t, \
	           "identity / rounded orthogonal / zero / scaled orthogonal / random matrices, perturbed in one entry (either sign) or in all entries by {0, .3, .7, .999, 1, 1.001, 1.5, 1.9, 2.1, 3, 10} x eps, eps log-uniform or a power of two; " \
	           "isIdentity decided component-wise (exact compare off the diagonal, one rounding on it), isNull / isNormalized / isOrthogonal required true or false only outside the band between the readings of the doc comment; " \
	           "non-trivial = a perturbed identity or orthogonal matrix (a predicate sits near its threshold)")
REG_Q(2, float, float, 200000, 2500000);
REG_Q(3, float, float, 200000, 2500000);
REG_Q(4, float, float, 200000, 2500000);
REG_Q(2, double, double, 200000, 2500000);
REG_Q(3, double, double, 200000, 2500000);
REG_Q(4, double, double, 200000, 2500000);

// =============================================================================================
// diagonalCxR(v): v on the diagonal, zero elsewhere; fliplr: columns reversed; flipud: rows reversed. BITS.
template <int C, int RW, class T> static void flips(pbt::Ctx& c) {
	T m[4][4];
	for (int a = 0; a < 4; ++a) for (int b = 0; b < 4; ++b) m[a][b] = (a < C && b < RW) ? (c.coin() ? (T)(10 * a + b + 1) : fp::gen_float<T>(c, fp::FD_FINITE)) : T(0);
	auto M = GM<C, RW, T>(m);
	T l[4][4], ud[4][4]; X<C, RW, T>(glm::fliplr(M), l); X<C, RW, T>(glm::flipud(M), ud);
	if (c.verbose) c.logf("%dx%d in=%s", C, RW, mstr(m, 4).c_str());
	for (int a = 0; a < C; ++a) for (int b = 0; b < RW; ++b) {
		if (!fp::same_bits(l[a][b], m[C - 1 - a][b])) c.failk("fliplr/" + std::to_string(C) + "x" + std::to_string(RW), "fliplr(in)[%d][%d]=%.9g, in[%d][%d]=%.9g; in=%s", a, b, (double)l[a][b], C - 1 - a, b, (double)m[C - 1 - a][b], mstr(m, 4).c_str());
		if (!fp::same_bits(ud[a][b], m[a][RW - 1 - b])) c.failk("flipud/" + std::to_string(C) + "x" + std::to_string(RW), "flipud(in)[%d][%d]=%.9g, in[%d][%d]=%.9g; in=%s", a, b, (double)ud[a][b], a, RW - 1 - b, (double)m[a][RW - 1 - b], mstr(m, 4).c_str());
	}
}
template <int C, int RW, int L, class T, class F> static void diag_check(pbt::Ctx& c, const char* name, F fn) {
	T v[4] = {0, 0, 0, 0};
	for (int i = 0; i < L; ++i) v[i] = c.coin() ? (T)(i + 2) : fp::gen_float<T>(c, fp::FD_FINITE);
	T d[4][4]; X<C, RW, T>(fn(GV<L, T>(v)), d);
	if (c.verbose) c.logf("%s(%s)", name, vstr(v, L).c_str());
	for (int a = 0; a < C; ++a) for (int b = 0; b < RW; ++b) {
		T want = (a == b) ? (a < L ? v[a] : T(1)) : T(0);
		if (!fp::same_bits(d[a][b], want)) c.failk(std::string(name) + "/entries", "%s(%s)[%d][%d]=%.9g, expected %.9g", name, vstr(v, L).c_str(), a, b, (double)d[a][b], (double)want);
	}
}
template <class T> static void diagflip(pbt::Ctx& c) {
	typedef glm::vec<2, T, glm::defaultp> V2; typedef glm::vec<3, T, glm::defaultp> V3; typedef glm::vec<4, T, glm::defaultp> V4;
	switch (c.draw(18)) {
	case 0: diag_check<2, 2, 2, T>(c, "diagonal2x2", [](const V2& v) { return glm::diagonal2x2(v); }); break;
	case 1: diag_check<2, 3, 2, T>(c, "diagonal2x3", [](const V2& v) { return glm::diagonal2x3(v); }); break;
	case 2: diag_check<2, 4, 2, T>(c, "diagonal2x4", [](const V2& v) { return glm::diagonal2x4(v); }); break;
	case 3: diag_check<3, 2, 2, T>(c, "diagonal3x2", [](const V2& v) { return glm::diagonal3x2(v); }); break;
	case 4: diag_check<3, 3, 3, T>(c, "diagonal3x3", [](const V3& v) { return glm::diagonal3x3(v); }); break;
	case 5: diag_check<3, 4, 3, T>(c, "diagonal3x4", [](const V3& v) { return glm::diagonal3x4(v); }); break;
	case 6: diag_check<4, 2, 2, T>(c, "diagonal4x2", [](const V2& v) { return glm::diagonal4x2(v); }); break;
	case 7: diag_check<4, 3, 3, T>(c, "diagonal4x3", [](const V3& v) { return glm::diagonal4x3(v); }); break;
	case 8: diag_check<4, 4, 4, T>(c, "diagonal4x4", [](const V4& v) { return glm::diagonal4x4(v); }); break;
	case 9: flips<2, 2, T>(c); break;
	case 10: flips<3, 3, T>(c); break;
	case 11: flips<4, 4, T>(c); break;
	case 12: flips<2, 3, T>(c); break;
	case 13: flips<3, 2, T>(c); break;
	case 14: flips<3, 4, T>(c); break;
	case 15: flips<4, 3, T>(c); break;
	case 16: flips<2, 4, T>(c); break;
	default: flips<4, 2, T>(c); break;
	}
	c.nontrivial();
}
static void diagflip_f(pbt::Ctx& c) { diagflip<float>(c); }
static void diagflip_d(pbt::Ctx& c) { diagflip<double>(c); }
#define DF_RULE "the nine diagonalCxR builders (vector on the diagonal, zeros elsewhere) and fliplr / flipud on all nine 2..4 x 2..4 shapes with pairwise distinct entries or arbitrary finite floats, bit-exact; every case non-trivial"
PBT_RANDOM("diagonal_flip/float", diagflip_f, 100000, 2000000, DF_RULE);
PBT_RANDOM("diagonal_flip/double", diagflip_d, 100000, 2000000, DF_RULE);
