// C01 (common functions), part 2 of 2: integer element types (abs sign min max clamp mix(bool)); see C01_common.cpp.
#define C01_COMMON_PART 2
#include "C01_common.cpp"
