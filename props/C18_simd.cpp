// C18 (second stage, built with -DGLM_FORCE_INTRINSICS -msse2) — glm/simd/integer.h: glm_i128_interleave and
// glm_i128_interleave2, the SSE2 forms of the 32-bit pair interleave (used as in test/gtc/gtc_bitfield.cpp:
// operand x in the low 32 bits of the low 64-bit half, y in the low 32 bits of the high half / of the second
// register; result in the low 64 bits). Oracle: bit i of x at bit 2i, bit i of y at bit 2i+1 (loop). The scalar
// bitfieldInterleave(uint32,uint32) and bitfieldDeinterleave(uint64) are re-checked in this configuration.
#include "fp.hpp"
#include "ref/refc18.hpp"
#include <glm/glm.hpp>
#include <glm/gtc/bitfield.hpp>

#if !(GLM_ARCH & GLM_ARCH_SSE2_BIT)
#error "this stage must be built with the SSE2 code path enabled"
#endif

static uint32_t gen_arg(pbt::Ctx& c) {
	switch (c.draw(4)) {
	case 0: return 1u << c.draw(32);
	case 1: return ~(1u << c.draw(32));
	case 2: return fp::gen_int<uint32_t>(c);
	default: return (uint32_t)c.draw(0);
	}
}
static void prop_simd(pbt::Ctx& c) {
	c18::begin_random_case();
	uint32_t x = gen_arg(c), y = gen_arg(c);
	c.logf("x=0x%08x y=0x%08x", x, y);
	if (x != y && x != 0 && y != 0 && x != 0xffffffffu && y != 0xffffffffu) c.nontrivial();
	if ((x >> 16) != 0 || (y >> 16) != 0) c.cls("high-halves-used");
	uint64_t a[2] = {x, y};
	const uint64_t want = c18::interleave(a, 2, 32);
	uint64_t out[2];
	__m128i r1 = glm_i128_interleave(_mm_set_epi32(0, (int)y, 0, (int)x));
	_mm_storeu_si128((__m128i*)out, r1);
	if (out[0] != want) c.fail("glm_i128_interleave", "glm_i128_interleave(x=0x%08x,y=0x%08x) low half=0x%016llx, expected 0x%016llx", x, y, (unsigned long long)out[0], (unsigned long long)want);
	__m128i r2 = glm_i128_interleave2(_mm_set_epi32(0, 0, 0, (int)x), _mm_set_epi32(0, 0, 0, (int)y));
	_mm_storeu_si128((__m128i*)out, r2);
	if (out[0] != want) c.fail("glm_i128_interleave2", "glm_i128_interleave2(x=0x%08x,y=0x%08x) low half=0x%016llx, expected 0x%016llx", x, y, (unsigned long long)out[0], (unsigned long long)want);
	glm::uint64 g = glm::bitfieldInterleave((glm::uint32)x, (glm::uint32)y);
	if (g != want) c.fail("bitfieldInterleave/uint32x2/sse2-build", "bitfieldInterleave(0x%08x,0x%08x)=0x%016llx, expected 0x%016llx", x, y, (unsigned long long)g, (unsigned long long)want);
	glm::u32vec2 d = glm::bitfieldDeinterleave((glm::uint64)want);
	if (d.x != x || d.y != y) c.fail("bitfieldDeinterleave/uint64/sse2-build", "bitfieldDeinterleave(0x%016llx)=(0x%08x,0x%08x)", (unsigned long long)want, d.x, d.y);
}
PBT_RANDOM("simd/i128_interleave", prop_simd, 2000000, 200000000, "single bits, single zeros, structured and random 32-bit pairs through glm_i128_interleave / glm_i128_interleave2 (SSE2) against the bit-placement loop; non-trivial = operands different, neither 0 nor all-ones");

int main(int argc, char** argv) { return pbt::pbt_main(argc, argv, "C18"); }
