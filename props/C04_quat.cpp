// C04 (part 1 of 3) — quaternion <-> matrix <-> axis-angle <-> Euler-angle agreement for glm::qua (detail/type_quat, gtc/quaternion,
// ext/quaternion_{common,geometric,trigonometric,transform}, gtx/quaternion). This file is compiled once per storage order
// (C04_CFG = "xyzw" default, "wxyz" with GLM_FORCE_QUAT_DATA_WXYZ); both builds draw identical cases (refrot::CaseAlign).
// Oracle: engine/ref/refrot.hpp — Hamilton product, the conversion polynomial P(q), coordinate rotations and Rodrigues' formula
// in long double on the T-rounded inputs. "Unit" inputs are unit up to rounding; d = |q|^2 - 1 is measured exactly and enters the
// bounds where the documented formula assumes |q| = 1. Tolerances are forward-error bounds of the documented formulas (margin x4..x8).
#include "fp.hpp"
#include "ref/refrot.hpp"
#include <glm/glm.hpp>
#include <glm/gtc/quaternion.hpp>
#include <glm/gtx/quaternion.hpp>
#include <glm/gtx/euler_angles.hpp>

#ifndef C04_CFG
#define C04_CFG "xyzw"
#endif

using namespace refrot;

template <class T> static const char* tname() { return sizeof(T) == 4 ? "float" : "double"; }
// quaternions are built through their named members only, so the harness does not depend on any constructor convention
template <class T> static glm::qua<T> GQ(const T* q) { glm::qua<T> r; r.w = q[0]; r.x = q[1]; r.y = q[2]; r.z = q[3]; return r; }
template <class T> static glm::vec<3, T> GV(const T* v) { glm::vec<3, T> r; r.x = v[0]; r.y = v[1]; r.z = v[2]; return r; }
template <class T> static std::string key(const char* fn, const char* what, const char* cls = nullptr) {
	std::string s = std::string(fn) + "/" + tname<T>() + "/" + what;
	if (cls) { s += "/"; s += cls; }
	return s;
}
template <class T> static bool bits_q(const glm::qua<T>& a, const glm::qua<T>& b) { return fp::same_bits(a.w, b.w) && fp::same_bits(a.x, b.x) && fp::same_bits(a.y, b.y) && fp::same_bits(a.z, b.z); }
template <class T> static bool bits_v3(const glm::vec<3, T>& a, const glm::vec<3, T>& b) { return fp::same_bits(a.x, b.x) && fp::same_bits(a.y, b.y) && fp::same_bits(a.z, b.z); }
template <class T> static std::string gq(const glm::qua<T>& q) { T a[4] = {q.w, q.x, q.y, q.z}; return "wxyz" + astr(a, 4); }
template <class T> static std::string gv(const glm::vec<3, T>& v) { T a[3] = {v.x, v.y, v.z}; return astr(a, 3); }

#define REG2(fn, name, q, t, rule) \
	static void fn##_f(pbt::Ctx& c) { static const CaseAlign al(name "/float", name "/float/" C04_CFG); al.apply(c); fn<float>(c); } PBT_RANDOM(name "/float/" C04_CFG, fn##_f, q, t, rule); \
	static void fn##_d(pbt::Ctx& c) { static const CaseAlign al(name "/double", name "/double/" C04_CFG); al.apply(c); fn<double>(c); } PBT_RANDOM(name "/double/" C04_CFG, fn##_d, q, t, rule)

// rotation axis (unit) and |sin(half angle)| of a nearly-unit quaternion
static inline V3 axis_of(Qn q, R* s) { V3 u = qvec(q); *s = vnorm(u); return *s > 0 ? vscale(u, 1 / *s) : V3{0, 0, 1}; }
// sin and cos of the yaw (rotation about Y in the Rz Ry Rx factorisation) of the rotation of q. cos(yaw) is the length of either atan2 argument
// pair of pitch()/roll(), evaluated in factored form: sqrt(1 - sin^2) would lose everything below 1e-9 even in long double.
static inline void yaw_of(Qn q, R* sy, R* cy) {
	R n2 = qnorm2(q);
	R xp = (q.w - q.y) * (q.w + q.y) - (q.x - q.z) * (q.x + q.z), yp = 2 * (q.y * q.z + q.w * q.x);
	*sy = 2 * (q.w * q.y - q.x * q.z) / n2;
	*cy = sqrtl(xp * xp + yp * yp) / n2;
}

// =====================================================================================================================
// q*v = mat3_cast(q)*v = mat4_cast(q)*(v,w) = P(q) v; v*q = inverse(q)*v; gtx rotate / cross / toMat3 / toMat4; conversion operators.
//   q*v = v + 2(w (u x v) + u x (u x v)) and P(q) are the same polynomial in q, so the reference is P(q) v on the T-rounded q (no
//   unit-length assumption needed). Forward error: each cross component 2u(|..|+|..|), two nested crosses, one scaling, two additions:
//   <= ~25 u |v| for |q| ~ 1 (design probe: 4.5 eps |v| observed); matrix entries <= 3u each, M v adds 3 products: <= ~12 u |v|.
template <class T> static void rotvec(pbt::Ctx& c) {
	T q[4], v[3];
	int qc = gen_unit_quat<T>(c, q);
	Qn rq = qn_of_arr(q);
	R sh; V3 ax = axis_of(rq, &sh);
	int vc = gen_vec3<T>(c, v, &ax);
	T w4 = c.coin() ? T(1) : (c.coin() ? T(0) : fp::gen_moderate<T>(c, 4, 4));
	c.cls(QC_NAME[qc]); c.cls(VC_NAME[vc]);
	if (c.verbose) c.logf("q=wxyz%s v=%s w4=%s (%s)", astr(q, 4).c_str(), astr(v, 3).c_str(), fstr(w4).c_str(), QC_KEY[qc]);
	const R eps = EPS<T>();
	V3 rv = v3_of_arr(v);
	const R vn = vnorm(rv);
	M3 P = qpoly(rq);
	V3 want = mvec(P, rv);
	if (sh > 1e-3L && vnorm(vcross(ax, rv)) > 1e-3L * vn) c.nontrivial();  // rotation not ~identity, v not along the axis: a wrong sign/index moves the result
	glm::qua<T> Q = GQ(q);
	glm::vec<3, T> V = GV(v);
	const R tolv = 32 * eps * vn + TINY<T>();
	auto cmpv = [&](const char* fn, const char* metric, const glm::vec<3, T>& g, V3 ref, R tol) {
		V3 d = vsub(v3_of(g), ref);
		if (!within(c, metric, vmaxabs(d), tol))
			c.failk(key<T>(fn, "reference-rotation", QC_KEY[qc]), "%s: q=wxyz%s v=%s gives %s, reference %s (err %.3Lg, tol %.3Lg)", fn, astr(q, 4).c_str(), astr(v, 3).c_str(), gv(g).c_str(), vstr(ref).c_str(), vmaxabs(d), tol);
	};
	glm::vec<3, T> g1 = Q * V;
	cmpv("quat*vec3", "q*v err/tol", g1, want, tolv);
	glm::mat<3, 3, T> M = glm::mat3_cast(Q);
	glm::mat<4, 4, T> M4 = glm::mat4_cast(Q);
	cmpv("mat3_cast*vec3", "mat3_cast(q)*v err/tol", M * V, want, tolv);
	{
		glm::vec<4, T> g = M4 * glm::vec<4, T>(V, w4);
		cmpv("mat4_cast*vec4", "mat4_cast(q)*(v,w) err/tol", glm::vec<3, T>(g), want, tolv);
		if (!fp::same_value(g.w, w4)) c.failk(key<T>("mat4_cast*vec4", "w-preserved"), "mat4_cast(q)*(v,%s) has w=%s", fstr(w4).c_str(), fstr(g.w).c_str());
	}
	{  // matrix entries against the polynomial: <= 3u per entry for |q| ~ 1
		M3 GM = m3_of(M);
		R d = mmaxdiff(GM, P);
		if (!within(c, "mat3_cast entries err/tol", d, 12 * eps))
			c.failk(key<T>("mat3_cast", "entries", QC_KEY[qc]), "mat3_cast(wxyz%s)=%s, reference %s (err %.3Lg)", astr(q, 4).c_str(), mstr(GM).c_str(), mstr(P).c_str(), d);
		bool same = true, ident = true;
		for (int i = 0; i < 4; ++i) for (int j = 0; j < 4; ++j) {
			if (i < 3 && j < 3) same = same && fp::same_bits(M4[i][j], M[i][j]);
			else ident = ident && fp::same_value(M4[i][j], T(i == j));
		}
		if (!same) c.failk(key<T>("mat4_cast", "upper-3x3-equals-mat3_cast"), "mat4_cast(wxyz%s) upper 3x3 differs from mat3_cast", astr(q, 4).c_str());
		if (!ident) c.failk(key<T>("mat4_cast", "homogeneous-part"), "mat4_cast(wxyz%s) last row/column is not (0,0,0,1)", astr(q, 4).c_str());
		if (glm::toMat3(Q) != M || glm::toMat4(Q) != M4) c.failk(key<T>("toMat", "equals-cast"), "toMat3/toMat4 differ from mat3_cast/mat4_cast for wxyz%s", astr(q, 4).c_str());
		if (static_cast<glm::mat<3, 3, T>>(Q) != M || static_cast<glm::mat<4, 4, T>>(Q) != M4) c.failk(key<T>("conversion-operator", "equals-cast"), "explicit operator mat3/mat4 differ from mat3_cast/mat4_cast for wxyz%s", astr(q, 4).c_str());
	}
	{  // overloads that are documented as the same rotation
		glm::vec<4, T> g4 = Q * glm::vec<4, T>(V, w4);
		if (!bits_v3(glm::vec<3, T>(g4), g1) || !fp::same_bits(g4.w, w4)) c.failk(key<T>("quat*vec4", "equals-quat*vec3"), "q*(v,w)=(%s,%s) but q*v=%s", gv(glm::vec<3, T>(g4)).c_str(), fstr(g4.w).c_str(), gv(g1).c_str());
		if (!bits_v3(glm::rotate(Q, V), g1)) c.failk(key<T>("gtx-rotate(q,vec3)", "equals-quat*vec3"), "rotate(q,v)=%s but q*v=%s", gv(glm::rotate(Q, V)).c_str(), gv(g1).c_str());
		glm::vec<4, T> r4 = glm::rotate(Q, glm::vec<4, T>(V, w4));
		if (!bits_v3(glm::vec<3, T>(r4), g1) || !fp::same_bits(r4.w, w4)) c.failk(key<T>("gtx-rotate(q,vec4)", "equals-quat*vec3"), "rotate(q,(v,w)) differs from (q*v,w)");
		if (!bits_v3(glm::cross(Q, V), g1)) c.failk(key<T>("gtx-cross(q,v)", "equals-quat*vec3"), "cross(q,v)=%s but q*v=%s", gv(glm::cross(Q, V)).c_str(), gv(g1).c_str());
	}
	{  // v*q = inverse(q)*v: the inverse rotation
		V3 wantinv = mvec(qpoly(qinv(rq)), rv);
		glm::vec<3, T> gi = V * Q;
		cmpv("vec3*quat", "v*q err/tol", gi, wantinv, tolv + 8 * eps * vn);
		if (!bits_v3(glm::cross(V, Q), gi)) c.failk(key<T>("gtx-cross(v,q)", "equals-vec3*quat"), "cross(v,q)=%s but v*q=%s", gv(glm::cross(V, Q)).c_str(), gv(gi).c_str());
		glm::vec<4, T> gi4 = glm::vec<4, T>(V, w4) * Q;
		if (!bits_v3(glm::vec<3, T>(gi4), gi) || !fp::same_bits(gi4.w, w4)) c.failk(key<T>("vec4*quat", "equals-vec3*quat"), "(v,w)*q differs from (v*q,w)");
		// inverse rotation undoes the rotation: evaluated in long double on GLM's own results
		glm::vec<3, T> back = glm::inverse(Q) * g1;
		V3 d = vsub(v3_of(back), rv);
		if (!within(c, "inverse(q)*(q*v) err/tol", vmaxabs(d), 2 * tolv + 8 * eps * vn))
			c.failk(key<T>("inverse*quat*vec3", "round-trip", QC_KEY[qc]), "inverse(q)*(q*v)=%s, v=%s, q=wxyz%s", gv(back).c_str(), astr(v, 3).c_str(), astr(q, 4).c_str());
	}
}
REG2(rotvec, "rotate-vector", 400000, 10000000,
     "unit quaternions rounded to T (exact table, random, axis-angle with angle within 1e-9 of 0/pi/2pi and axis within 1e-9 of a coordinate axis, w~0, w~+-1, largest-component ties, gimbal neighbourhoods, products) x "
     "vec3 (mixed magnitude 2^-10..2^10, same scale, small ints, axis-aligned, unit, parallel to the rotation axis); q*v, mat3_cast(q)*v, mat4_cast(q)*(v,w), v*q, gtx rotate/cross/toMat, conversion operators "
     "against the long-double conversion polynomial P(q) v; non-trivial = |sin(half angle)| > 1e-3 and v not within 1e-3 of the rotation axis");

// =====================================================================================================================
// quat_cast(mat3_cast(q)) = +-q, and quat_cast of the T-rounded exact rotation matrix = +-q.
//   With |q|^2 = 1 + d the diagonal of P(q) gives 4b^2 - 1 - 4d for the largest component b (>= 1/2): b comes back as b - d/(2b), the
//   others as c b / sqrt(b^2 - d): deviation <= 2|d|. Rounding: the diagonal sums carry <= ~16u absolute error relative to 4b^2 >= 1,
//   the off-diagonal sums <= 8u, divided by 4b >= 2: <= ~16u = 8 eps in total (design probe: 4 eps observed).
template <class T> static void quatcast(pbt::Ctx& c) {
	T q[4];
	int qc = gen_unit_quat<T>(c, q);
	c.cls(QC_NAME[qc]);
	if (c.verbose) c.logf("q=wxyz%s (%s)", astr(q, 4).c_str(), QC_KEY[qc]);
	const R eps = EPS<T>();
	Qn rq = qn_of_arr(q);
	const R d = rabs(qnorm2(rq) - 1);
	{  // which component is the largest, and is the runner-up within 4 ulps of it
		int bi = 0, si = -1;
		for (int i = 1; i < 4; ++i) if (std::fabs(q[i]) > std::fabs(q[bi])) bi = i;
		for (int i = 0; i < 4; ++i) if (i != bi && (si < 0 || std::fabs(q[i]) > std::fabs(q[si]))) si = i;
		static const char* const BN[] = {"largest |component|: w", "largest |component|: x", "largest |component|: y", "largest |component|: z"};
		c.cls(BN[bi]);
		if (fp::ulp_dist((T)std::fabs(q[bi]), (T)std::fabs(q[si])) <= 4) c.cls("top two |components| within 4 ulps (branch tie)");
		int nz = 0; bool distinct = true;
		for (int i = 0; i < 4; ++i) { nz += q[i] != 0; for (int j = 0; j < i; ++j) if (q[i] != 0 && std::fabs(q[i]) == std::fabs(q[j])) distinct = false; }
		if (nz >= 3 && distinct) c.nontrivial();
	}
	glm::qua<T> Q = GQ(q);
	glm::mat<3, 3, T> M = glm::mat3_cast(Q);
	glm::qua<T> g = glm::quat_cast(M);
	R e = qmaxdiff_pm(qn_of(g), rq);
	if (!within(c, "quat_cast(mat3_cast(q)) vs +-q err/tol", e, 32 * eps + 2 * d))
		c.failk(key<T>("quat_cast", "round-trip-through-mat3_cast", QC_KEY[qc]), "quat_cast(mat3_cast(q))=%s for q=wxyz%s: neither q nor -q (err %.3Lg, tol %.3Lg)", gq(g).c_str(), astr(q, 4).c_str(), e, 32 * eps + 2 * d);
	{  // independent of mat3_cast: the exact rotation matrix of q rounded to T (orthogonal up to u per entry)
		M3 Rm = qrot(rq);
		glm::mat<3, 3, T> ME(T(0));
		for (int i = 0; i < 3; ++i) for (int j = 0; j < 3; ++j) ME[j][i] = (T)Rm.m[i][j];
		glm::qua<T> g2 = glm::quat_cast(ME);
		R e2 = qrotdist(qn_of(g2), rq);
		if (!within(c, "quat_cast(exact rotation matrix) vs +-q err/tol", e2, 32 * eps))
			c.failk(key<T>("quat_cast", "exact-rotation-matrix", QC_KEY[qc]), "quat_cast(R)=%s for the rounded rotation matrix of q=wxyz%s (err %.3Lg)", gq(g2).c_str(), astr(q, 4).c_str(), e2);
		R len = qnorm(qn_of(g2));
		if (!within(c, "quat_cast result |len-1| err/tol", rabs(len - 1), 32 * eps))
			c.failk(key<T>("quat_cast", "unit-length", QC_KEY[qc]), "quat_cast(R)=%s has length %.17Lg for the rotation matrix of q=wxyz%s", gq(g2).c_str(), len, astr(q, 4).c_str());
	}
	glm::mat<4, 4, T> M4 = glm::mat4_cast(Q);
	if (!bits_q(glm::quat_cast(M4), g)) c.failk(key<T>("quat_cast(mat4)", "equals-quat_cast(mat3)"), "quat_cast(mat4_cast(q)) differs from quat_cast(mat3_cast(q)) for wxyz%s", astr(q, 4).c_str());
	if (!bits_q(glm::toQuat(M), g) || !bits_q(glm::toQuat(M4), g)) c.failk(key<T>("toQuat", "equals-quat_cast"), "toQuat differs from quat_cast for wxyz%s", astr(q, 4).c_str());
	if (!bits_q(glm::qua<T>(M), g) || !bits_q(glm::qua<T>(M4), g)) c.failk(key<T>("qua(mat)", "equals-quat_cast"), "qua(mat3)/qua(mat4) differ from quat_cast for wxyz%s", astr(q, 4).c_str());
}
REG2(quatcast, "quat-cast", 400000, 10000000,
     "unit quaternions as in rotate-vector, with every 'largest component' branch of quat_cast and ties of the two largest components down to +-2 ulps; quat_cast(mat3_cast(q)) and quat_cast of the "
     "T-rounded exact rotation matrix must be q or -q, quat_cast(mat4), toQuat and the matrix constructors must agree; non-trivial = at least three non-zero components with pairwise distinct magnitudes");

// =====================================================================================================================
// Hamilton product and what is built on it: q1*q2, cross(q1,q2), *=, mat(q1 q2) = mat(q1) mat(q2), (q1 q2) v = q1 (q2 v), inverse,
// conjugate, dot, length, normalize, length2, component-wise operators.
//   product component: 4 rounded products, 3 additions: <= 4u S (S = sum of |products|).
//   P(q) = N(q) - d I with N multiplicative, so P(q1 q2) - P(q1) P(q2) = O(|d1| + |d2| + |d12|) on top of ~30u of rounding.
template <class T> static void product(pbt::Ctx& c) {
	T a[4], b[4], v[3];
	int ca = gen_unit_quat<T>(c, a), cb = gen_unit_quat<T>(c, b);
	bool unit = c.draw(4) != 0;
	if (!unit) {  // non-unit operands for the algebraic part (power-of-two or arbitrary scale, 2^-8..2^8)
		T sa = c.coin() ? (T)std::ldexp(1.0, (int)c.range(-8, 8)) : (T)c.loguniform(1.0 / 256, 256.0), sb = c.coin() ? (T)std::ldexp(1.0, (int)c.range(-8, 8)) : (T)c.loguniform(1.0 / 256, 256.0);
		for (int i = 0; i < 4; ++i) { a[i] *= sa; b[i] *= sb; }
	}
	gen_vec3<T>(c, v, nullptr);
	c.cls(QC_NAME[ca]); c.cls(unit ? "unit operands" : "scaled (non-unit) operands");
	if (c.verbose) c.logf("q1=wxyz%s q2=wxyz%s v=%s (%s,%s,%s)", astr(a, 4).c_str(), astr(b, 4).c_str(), astr(v, 3).c_str(), QC_KEY[ca], QC_KEY[cb], unit ? "unit" : "scaled");
	const R eps = EPS<T>(), u = U<T>();
	Qn ra = qn_of_arr(a), rb = qn_of_arr(b);
	Qn want = qmul(ra, rb), S = qmul_scale(ra, rb);
	{
		R s1, s2; axis_of(ra, &s1); axis_of(rb, &s2);
		V3 x = vcross(qvec(ra), qvec(rb));
		if (vnorm(x) > 1e-3L * s1 * s2 && s1 > 1e-3L * qnorm(ra) && s2 > 1e-3L * qnorm(rb)) c.nontrivial();  // two non-trivial rotations about different axes: the product does not commute
	}
	glm::qua<T> A = GQ(a), B = GQ(b);
	glm::qua<T> g = A * B;
	Qn rg = qn_of(g);
	for (int i = 0; i < 4; ++i) {
		R tol = 32 * u * qget(S, i) + TINY<T>();
		if (!within(c, "q1*q2 component err/tol", rabs(qget(rg, i) - qget(want, i)), tol))
			c.failk(key<T>("quat*quat", "hamilton-product", QC_KEY[ca]), "q1*q2=%s for q1=wxyz%s q2=wxyz%s, Hamilton product %s (component %d)", gq(g).c_str(), astr(a, 4).c_str(), astr(b, 4).c_str(), qstr(want).c_str(), i);
	}
	{
		glm::qua<T> x = glm::cross(A, B);
		Qn rx = qn_of(x);
		bool ok = true;
		for (int i = 0; i < 4; ++i) ok = ok && within(c, "cross(q1,q2) component err/tol", rabs(qget(rx, i) - qget(want, i)), 32 * u * qget(S, i) + TINY<T>());
		if (!ok) c.failk(key<T>("cross(quat,quat)", "hamilton-product", QC_KEY[ca]), "cross(q1,q2)=%s for q1=wxyz%s q2=wxyz%s, Hamilton product %s", gq(x).c_str(), astr(a, 4).c_str(), astr(b, 4).c_str(), qstr(want).c_str());
		if (bits_q(x, g)) c.cls("cross(q1,q2) bit-identical to q1*q2");
		glm::qua<T> y = A; y *= B;
		if (!bits_q(y, g)) c.failk(key<T>("quat*=quat", "equals-binary-product"), "q1*=q2 gives %s, q1*q2 gives %s", gq(y).c_str(), gq(g).c_str());
		{  // the right operand may be the object itself: q *= q is q * q
			glm::qua<T> s1 = A, s2 = A * A; s1 *= s1;
			if (!bits_q(s1, s2)) c.failk(key<T>("quat*=quat", "aliased-operand"), "q *= q gives %s, q * q gives %s (q=wxyz%s)", gq(s1).c_str(), gq(s2).c_str(), astr(a, 4).c_str());
			glm::qua<T> a1 = A; a1 += a1; glm::qua<T> a2 = A; a2 -= a2;
			if (!bits_q(a1, A + A) || !bits_q(a2, A - A)) c.failk(key<T>("quat+=quat", "aliased-operand"), "q += q / q -= q give %s / %s", gq(a1).c_str(), gq(a2).c_str());
		}
		// mixed element types: qua<T> op= qua<U> with U the other of float/double. The left operand keeps its own precision: the result is
		// the product (sum, difference) of q1 and q2 converted to T, within the bound of the same-type operator
		typedef typename std::conditional<std::is_same<T, float>::value, double, float>::type UT;
		glm::qua<UT> BU(B);
		const glm::qua<T> BT(BU);
		glm::qua<T> ym = A; ym *= BU;
		const glm::qua<T> gm = A * BT;
		Qn rym = qn_of(ym), rgm = qn_of(gm);
		for (int i = 0; i < 4; ++i)
			if (!within(c, "q1*=q2(other element type) err/tol", rabs(qget(rym, i) - qget(rgm, i)), 64 * u * qget(S, i) + TINY<T>()))
				c.failk(key<T>("quat*=quat<U>", "equals-product-with-converted-operand"), "q1 *= qua<%s>(q2) gives %s, q1 * qua<T>(q2) gives %s", sizeof(UT) == 4 ? "float" : "double", gq(ym).c_str(), gq(gm).c_str());
		glm::qua<T> ya = A; ya += BU; glm::qua<T> ys = A; ys -= BU;
		if (!bits_q(ya, A + BT) || !bits_q(ys, A - BT)) c.failk(key<T>("quat+=quat<U>", "component-wise"), "q1 += / -= qua<%s>(q2) gives %s / %s, component-wise %s / %s", sizeof(UT) == 4 ? "float" : "double", gq(ya).c_str(), gq(ys).c_str(), gq(A + BT).c_str(), gq(A - BT).c_str());
	}
	if (unit) {
		const R d1 = rabs(qnorm2(ra) - 1), d2 = rabs(qnorm2(rb) - 1), d12 = rabs(qnorm2(rg) - 1);
		M3 L = m3_of(glm::mat3_cast(g)), Rr = m3_of(glm::mat3_cast(A) * glm::mat3_cast(B));
		R e = mmaxdiff(L, Rr), tol = 32 * eps + 2 * (d1 + d2 + d12);
		if (!within(c, "mat(q1 q2) vs mat(q1) mat(q2) err/tol", e, tol))
			c.failk(key<T>("mat3_cast(q1*q2)", "product-of-matrices", QC_KEY[ca]), "mat3_cast(q1*q2)=%s but mat3_cast(q1)*mat3_cast(q2)=%s, q1=wxyz%s q2=wxyz%s (err %.3Lg)", mstr(L).c_str(), mstr(Rr).c_str(), astr(a, 4).c_str(), astr(b, 4).c_str(), e);
		// against the reference: exact rotation of q1 times exact rotation of q2
		M3 want_m = mmul(qrot(ra), qrot(rb));
		R e2 = mmaxdiff(L, want_m);
		if (!within(c, "mat(q1 q2) vs reference Rot(q1) Rot(q2) err/tol", e2, tol))
			c.failk(key<T>("mat3_cast(q1*q2)", "reference-composition", QC_KEY[ca]), "mat3_cast(q1*q2)=%s, composition of the two rotations %s (err %.3Lg)", mstr(L).c_str(), mstr(want_m).c_str(), e2);
		glm::mat<4, 4, T> L4 = glm::mat4_cast(g), R4 = glm::mat4_cast(A) * glm::mat4_cast(B);
		R e4 = 0; for (int i = 0; i < 4; ++i) for (int j = 0; j < 4; ++j) e4 = rmax(e4, rabs((R)L4[i][j] - (R)R4[i][j]));
		if (!within(c, "mat4(q1 q2) vs mat4(q1) mat4(q2) err/tol", e4, tol))
			c.failk(key<T>("mat4_cast(q1*q2)", "product-of-matrices", QC_KEY[ca]), "mat4_cast(q1*q2) differs from mat4_cast(q1)*mat4_cast(q2) by %.3Lg, q1=wxyz%s q2=wxyz%s", e4, astr(a, 4).c_str(), astr(b, 4).c_str());
		glm::vec<3, T> V = GV(v);
		V3 rv = v3_of_arr(v); R vn = vnorm(rv);
		V3 l = v3_of(g * V), r = v3_of(A * (B * V));
		if (!within(c, "(q1 q2) v vs q1 (q2 v) err/tol", vmaxabs(vsub(l, r)), (96 * eps + 2 * (d1 + d2 + d12)) * vn + TINY<T>()))
			c.failk(key<T>("quat*quat*vec3", "associative", QC_KEY[ca]), "(q1*q2)*v=%s but q1*(q2*v)=%s, q1=wxyz%s q2=wxyz%s v=%s", vstr(l).c_str(), vstr(r).c_str(), astr(a, 4).c_str(), astr(b, 4).c_str(), astr(v, 3).c_str());
	}
	{  // inverse / conjugate
		glm::qua<T> cj = glm::conjugate(A), iv = glm::inverse(A);
		T e[4] = {a[0], -a[1], -a[2], -a[3]};
		if (!bits_q(cj, GQ(e))) c.failk(key<T>("conjugate", "negated-vector-part"), "conjugate(wxyz%s)=%s", astr(a, 4).c_str(), gq(cj).c_str());
		Qn wi = qinv(ra), ri = qn_of(iv);
		R n2 = qnorm2(ra);
		bool ok = true;
		for (int i = 0; i < 4; ++i) ok = ok && within(c, "inverse component err/tol", rabs(qget(ri, i) - qget(wi, i)), 32 * u * rabs(qget(wi, i)) + TINY<T>());
		if (!ok) c.failk(key<T>("inverse", "conjugate-over-norm2", QC_KEY[ca]), "inverse(wxyz%s)=%s, conj/|q|^2=%s", astr(a, 4).c_str(), gq(iv).c_str(), qstr(wi).c_str());
		Qn one = qn_of(A * iv);
		R e1 = qmaxdiff(one, Qn{1, 0, 0, 0});
		if (!within(c, "q*inverse(q) vs identity err/tol", e1, 32 * eps))
			c.failk(key<T>("quat*inverse", "identity", QC_KEY[ca]), "q*inverse(q)=%s for q=wxyz%s (err %.3Lg)", qstr(one).c_str(), astr(a, 4).c_str(), e1);
		Qn one2 = qn_of(iv * A);
		if (!within(c, "inverse(q)*q vs identity err/tol", qmaxdiff(one2, Qn{1, 0, 0, 0}), 32 * eps))
			c.failk(key<T>("inverse*quat", "identity", QC_KEY[ca]), "inverse(q)*q=%s for q=wxyz%s", qstr(one2).c_str(), astr(a, 4).c_str());
		if (unit) {  // conjugate equals inverse for unit q: they differ by the factor 1/|q|^2 = 1 - d
			R e2 = 0; Qn rc = qn_of(cj);
			for (int i = 0; i < 4; ++i) e2 = rmax(e2, rabs(qget(rc, i) - qget(ri, i)) / ((rabs(n2 - 1) * 1.01L + 24 * u) * rmax(rabs(qget(rc, i)), (R)1e-300L)));
			c.metric("conjugate vs inverse (unit q) err/tol", (double)e2);
			if (!(e2 <= 1)) c.failk(key<T>("conjugate", "equals-inverse-for-unit-q", QC_KEY[ca]), "conjugate(q)=%s, inverse(q)=%s for unit q=wxyz%s (|q|^2-1=%.3Lg)", gq(cj).c_str(), gq(iv).c_str(), astr(a, 4).c_str(), n2 - 1);
		}
	}
	{  // dot, length, length2, normalize
		R dw = qdot(ra, rb), ds = rabs(ra.w * rb.w) + rabs(ra.x * rb.x) + rabs(ra.y * rb.y) + rabs(ra.z * rb.z);
		T gd = glm::dot(A, B);
		if (!within(c, "dot(q1,q2) err/tol", rabs((R)gd - dw), 32 * u * ds + TINY<T>()))
			c.failk(key<T>("dot(quat,quat)", "sum-of-products", QC_KEY[ca]), "dot(wxyz%s,wxyz%s)=%s, expected %.17Lg", astr(a, 4).c_str(), astr(b, 4).c_str(), fstr(gd).c_str(), dw);
		R n = qnorm(ra);
		T gl = glm::length(A), gl2 = glm::length2(A);
		if (!within(c, "length(q) err/tol", rabs((R)gl - n), 24 * u * n + TINY<T>())) c.failk(key<T>("length(quat)", "norm", QC_KEY[ca]), "length(wxyz%s)=%s, expected %.17Lg", astr(a, 4).c_str(), fstr(gl).c_str(), n);
		if (!within(c, "length2(q) err/tol", rabs((R)gl2 - n * n), 32 * u * n * n + TINY<T>())) c.failk(key<T>("length2(quat)", "squared-norm", QC_KEY[ca]), "length2(wxyz%s)=%s, expected %.17Lg", astr(a, 4).c_str(), fstr(gl2).c_str(), n * n);
		glm::qua<T> gn = glm::normalize(A);
		Qn wn = qunit(ra), rn = qn_of(gn);
		bool ok = true;
		for (int i = 0; i < 4; ++i) ok = ok && within(c, "normalize(q) component err/tol", rabs(qget(rn, i) - qget(wn, i)), 40 * u * rabs(qget(wn, i)) + TINY<T>());
		if (!ok) c.failk(key<T>("normalize(quat)", "q-over-length", QC_KEY[ca]), "normalize(wxyz%s)=%s, expected %s", astr(a, 4).c_str(), gq(gn).c_str(), qstr(wn).c_str());
	}
	if (unit) {  // gtx extractRealComponent: the magnitude of the real part a unit quaternion must have for the given xyz, sqrt(1 - |xyz|^2) (its sign is not documented);
		// 1 - |xyz|^2 carries ~4u absolute error, the root is accurate to ~2u / sqrt(..) and to sqrt(4u) at 0
		V3 uv = qvec(ra);
		R ex = 1 - vdot(uv, uv), sw = ex > 0 ? sqrtl(ex) : 0;
		T gr = glm::extractRealComponent(A);
		c.cls(gr < 0 ? "extractRealComponent: negative root returned" : (gr == 0 ? "extractRealComponent: 0 returned" : "extractRealComponent: positive root returned"));
		if (!within(c, "extractRealComponent magnitude err/tol", rabs(rabs((R)gr) - sw), 32 * u / rmax(sw, sqrtl(32 * u))))
			c.failk(key<T>("extractRealComponent", "magnitude", QC_KEY[ca]), "extractRealComponent(wxyz%s)=%s, sqrt(1-|xyz|^2)=%.17Lg", astr(a, 4).c_str(), fstr(gr).c_str(), sw);
	}
	{  // component-wise operators: one correctly rounded operation per component (VALUE)
		T s = c.coin() ? (T)std::ldexp(1.0, (int)c.range(-4, 4)) : fp::gen_moderate<T>(c, 6, 6);
		if (s == 0) s = 3;
		auto chk = [&](const char* fn, const glm::qua<T>& got, T e0, T e1, T e2, T e3) {
			if (!(fp::same_value(got.w, e0) && fp::same_value(got.x, e1) && fp::same_value(got.y, e2) && fp::same_value(got.z, e3))) {
				T e[4] = {e0, e1, e2, e3};
				c.failk(key<T>(fn, "component-wise"), "%s gives %s, expected wxyz%s; q1=wxyz%s q2=wxyz%s s=%s", fn, gq(got).c_str(), astr(e, 4).c_str(), astr(a, 4).c_str(), astr(b, 4).c_str(), fstr(s).c_str());
			}
		};
		chk("quat+quat", A + B, a[0] + b[0], a[1] + b[1], a[2] + b[2], a[3] + b[3]);
		chk("quat-quat", A - B, a[0] - b[0], a[1] - b[1], a[2] - b[2], a[3] - b[3]);
		chk("quat*scalar", A * s, a[0] * s, a[1] * s, a[2] * s, a[3] * s);
		chk("scalar*quat", s * A, a[0] * s, a[1] * s, a[2] * s, a[3] * s);
		chk("quat/scalar", A / s, a[0] / s, a[1] / s, a[2] / s, a[3] / s);
		chk("-quat", -A, -a[0], -a[1], -a[2], -a[3]);
		chk("+quat", +A, a[0], a[1], a[2], a[3]);
		glm::qua<T> t = A; t += B; chk("quat+=quat", t, a[0] + b[0], a[1] + b[1], a[2] + b[2], a[3] + b[3]);
		t = A; t -= B; chk("quat-=quat", t, a[0] - b[0], a[1] - b[1], a[2] - b[2], a[3] - b[3]);
		t = A; t *= s; chk("quat*=scalar", t, a[0] * s, a[1] * s, a[2] * s, a[3] * s);
		t = A; t /= s; chk("quat/=scalar", t, a[0] / s, a[1] / s, a[2] / s, a[3] / s);
		// equality: all four components, each component on its own decides
		glm::qua<T> e = A;
		if (!(e == A) || (e != A)) c.failk(key<T>("quat==quat", "reflexive"), "q == q is false for wxyz%s", astr(a, 4).c_str());
		int k = (int)c.draw(4);
		T* comp[4] = {&e.w, &e.x, &e.y, &e.z};
		*comp[k] = fp::from_ordered<T>(fp::ordered(*comp[k]) + 1);
		if ((e == A) || !(e != A)) c.failk(key<T>("quat==quat", "one-component-differs"), "q == q' although component %d (wxyz order) differs by one ulp, q=wxyz%s", k, astr(a, 4).c_str());
	}
}
REG2(product, "product", 400000, 10000000,
     "pairs of unit quaternions (all classes; one quarter scaled by 2^-8..2^8 for the purely algebraic relations) and a vec3; q1*q2, cross(q1,q2), *= against the long-double Hamilton product (32u x sum of |products|), "
     "mat3_cast/mat4_cast(q1*q2) against the product of the two matrices and against the composed reference rotations, (q1 q2) v = q1 (q2 v), q*inverse(q) = 1, conjugate = inverse for unit q, dot/length/length2/normalize, "
     "component-wise operators and ==/!= exactly; non-trivial = both rotations are not ~identity and their axes are not parallel (the product does not commute)");

// =====================================================================================================================
// angle(q), axis(q), angleAxis(angle, axis), the round trip angleAxis(angle(q), axis(q)) = +-q, and rotate(q, angle, axis).
//   reference angle = 2 atan2(|u|, w) in [0, 2pi]; GLM: 2 asin(|u|) (resp. 2pi - ..) for |w| > cos(1/2), else 2 acos(w); both assume |q| = 1.
//   axis = u / sqrt(1 - w^2): 1 - w^2 = |u|^2 - d carries absolute error <= u + |d|, i.e. relative (u + |d|)/|u|^2 (cancellation for w -> +-1);
//   1 - w^2 <= 0 returns (0,0,1). The round trip multiplies the axis by sin(angle/2) = |u| again: error (16 eps + |d|)(1 + 1/max(|u|, sqrt eps)).
template <class T> static void angleaxis(pbt::Ctx& c) {
	T q[4];
	int qc = gen_unit_quat<T>(c, q);
	c.cls(QC_NAME[qc]);
	const R eps = EPS<T>(), u = U<T>();
	Qn rq = qn_of_arr(q);
	const R d = rabs(qnorm2(rq) - 1);
	R s; V3 ax = axis_of(rq, &s);
	glm::qua<T> Q = GQ(q);
	T ga = glm::angle(Q);
	glm::vec<3, T> gn = glm::axis(Q);
	if (c.verbose) c.logf("q=wxyz%s (%s)", astr(q, 4).c_str(), QC_KEY[qc]);
	const R cos_half = 0.877582561890372716116281582603829651991L;
	const bool asin_branch = rabs(rq.w) > cos_half;
	c.cls(asin_branch ? (rq.w < 0 ? "angle: asin branch, w<0 (2pi - a)" : "angle: asin branch, w>0") : "angle: acos branch");
	if (rabs(rabs(rq.w) - cos_half) < 1e-3L) c.cls("angle: |w| within 1e-3 of the branch point cos(1/2)");
	if (rabs(rabs(rq.w) - cos_half) < 16 * eps) c.cls("angle: |w| within 16 eps of the branch point cos(1/2)");
	if (s > 1e-3L) c.nontrivial();
	{
		R want = 2 * atan2l(s, rq.w);
		R A = rq.w >= 0 ? want : 2 * PI;
		R tol = 16 * eps * rmax(A, (asin_branch ? 0 : 1)) + 2 * d * rmin(1, rmax(A, asin_branch ? 0 : 1)) + TINY<T>();
		if (!within(c, "angle(q) err/tol", rabs((R)ga - want), tol))
			c.failk(key<T>("angle", asin_branch ? (rq.w < 0 ? "asin-branch-w<0" : "asin-branch-w>0") : "acos-branch", QC_KEY[qc]), "angle(wxyz%s)=%s, 2 atan2(|xyz|,w)=%.17Lg (tol %.3Lg)", astr(q, 4).c_str(), fstr(ga).c_str(), want, tol);
	}
	const bool degenerate = gn.x == 0 && gn.y == 0 && gn.z == 1;
	{
		R rel = s > 0 ? 4 * (u + d) / (s * s) + 32 * u : 1e30L;
		if (rel >= 0.5L) { c.cls(degenerate && !(q[1] == 0 && q[2] == 0) ? "axis: (0,0,1) returned for |xyz| ~ sqrt(eps) (ill-conditioned, not compared)" : "axis: ill-conditioned or identity (not compared)"); }
		else {
			V3 g = v3_of(gn);
			bool ok = true;
			for (int i = 0; i < 3; ++i) ok = ok && within(c, "axis(q) component err/tol", rabs(vget(g, i) - vget(ax, i)), rel * rmax(rabs(vget(ax, i)), 0) + 4 * u * rel + TINY<T>());
			if (!ok) c.failk(key<T>("axis", "xyz-over-length", QC_KEY[qc]), "axis(wxyz%s)=%s, xyz/|xyz|=%s (relative bound %.3Lg)", astr(q, 4).c_str(), gv(gn).c_str(), vstr(ax).c_str(), rel);
			if (!within(c, "axis(q) |len-1| err/tol", rabs(vnorm(g) - 1), 2 * rel)) c.failk(key<T>("axis", "unit-length", QC_KEY[qc]), "axis(wxyz%s)=%s has length %.17Lg", astr(q, 4).c_str(), gv(gn).c_str(), vnorm(g));
		}
	}
	{
		glm::qua<T> r = glm::angleAxis(ga, gn);
		R e = qmaxdiff_pm(qn_of(r), rq);
		R tol = (16 * eps + d) * (1 + 1 / rmax(s, sqrtl(eps)));
		if (tol > 1e-2L) c.cls("round trip: bound above 1e-2 (|xyz| near 0)");
		if (!within(c, "angleAxis(angle(q),axis(q)) vs +-q err/tol", e, tol))
			c.failk(key<T>("angleAxis(angle,axis)", "round-trip", QC_KEY[qc]), "angleAxis(angle(q)=%s, axis(q)=%s)=%s for q=wxyz%s (err %.3Lg, tol %.3Lg)", fstr(ga).c_str(), gv(gn).c_str(), gq(r).c_str(), astr(q, 4).c_str(), e, tol);
		else if (qmaxdiff(qn_of(r), rq) > tol) c.cls("round trip returned -q");
	}
	{  // angleAxis on a generated angle and unit axis: (cos(a/2), n sin(a/2)); halving is exact, sin/cos <= 1 ulp, one product
		int ac; T a = gen_angle<T>(c, &ac);
		T n[3]; gen_unit_vec3<T>(c, n);
		c.cls(AC_NAME[ac]);
		if (c.verbose) c.logf("angleAxis: angle=%s axis=%s", fstr(a).c_str(), astr(n, 3).c_str());
		glm::qua<T> r = glm::angleAxis(a, GV(n));
		Qn want = q_axis_angle(v3_of_arr(n), (R)a), rr = qn_of(r);
		bool ok = true;
		for (int i = 0; i < 4; ++i) ok = ok && within(c, "angleAxis(a,n) component err/tol", rabs(qget(rr, i) - qget(want, i)), 8 * eps * rabs(qget(want, i)) + TINY<T>());
		if (!ok) c.failk(key<T>("angleAxis", "cos-sin-half-angle"), "angleAxis(%s,%s)=%s, expected %s", fstr(a).c_str(), astr(n, 3).c_str(), gq(r).c_str(), qstr(want).c_str());
		// rotate(q, angle, axis) = q * angleAxis(angle, axis/|axis|): the axis is normalised unless its length is within 1e-3 of 1 (unit axis rounded to T, or clearly non-unit)
		T m[3] = {n[0], n[1], n[2]};
		bool scaled = c.coin();
		if (scaled) { T f = c.coin() ? (T)c.uniform(0.2, 0.9) : (T)c.uniform(1.1, 5.0); for (int i = 0; i < 3; ++i) m[i] *= f; }
		c.cls(scaled ? "rotate(q,angle,axis): non-unit axis" : "rotate(q,angle,axis): unit axis");
		glm::qua<T> g = glm::rotate(Q, a, GV(m));
		Qn wr = qmul(rq, q_axis_angle(scaled ? vunit(v3_of_arr(m)) : v3_of_arr(m), (R)a)), rg = qn_of(g);
		R e = qmaxdiff(rg, wr);
		if (!within(c, "rotate(q,angle,axis) err/tol", e, 32 * eps))
			c.failk(key<T>("rotate(quat,angle,axis)", scaled ? "non-unit-axis" : "unit-axis", QC_KEY[qc]), "rotate(wxyz%s, %s, %s)=%s, q*angleAxis(angle, normalised axis)=%s (err %.3Lg)", astr(q, 4).c_str(), fstr(a).c_str(), astr(m, 3).c_str(), gq(g).c_str(), qstr(wr).c_str(), e);
	}
}
REG2(angleaxis, "angle-axis", 400000, 10000000,
     "unit quaternions (all classes, both angle() branches incl. w<0, |xyz| from 1e-12 to 1, the degenerate axis branch) and separately a generated angle (0, k pi/2 +- ulps / +- 1e-9..1e-3, small, uniform [-2pi,2pi], table, "
     "[-1000,1000]) with a unit axis (coordinate axis exactly / within 1e-9..1e-2 / random) and a non-unit multiple of it; angle(q) against 2 atan2(|xyz|,w), axis(q) against xyz/|xyz| with the (u+|d|)/|xyz|^2 conditioning of 1-w^2, "
     "angleAxis(angle(q),axis(q)) = +-q, angleAxis(a,n) = (cos a/2, n sin a/2), rotate(q,a,n) = q*angleAxis(a, n/|n|); non-trivial = |sin(half angle)| > 1e-3");

// =====================================================================================================================
// Euler angles of a quaternion: qua(eulerAngles(q)) rotates like q; pitch/yaw/roll are the components of eulerAngles; qua(vec3(p,y,r))
// is the rotation Rz(r) Ry(y) Rx(p) and mat3_cast of it equals the gtx matrix eulerAngleZ(r) eulerAngleY(y) eulerAngleX(p).
//   yaw = asin(clamp(2(wy - xz))), pitch/roll = atan2 of two sums that are both proportional to cos(yaw): each carries absolute error
//   ~2 eps, so the angles (and the rebuilt rotation) are accurate to ~eps/cos(yaw) only: bound 16 eps (1 + 1/cos yaw), not compared when it exceeds 0.5.
//   Exact gimbal lock with exact arithmetic ((+-1/2)^4 with wy - xz = +-1/2: every product is exact, both atan2 arguments are exactly 0,
//   the documented singularity rule applies) is compared at 32 eps.
template <class T> static void eulerquat(pbt::Ctx& c) {
	T q[4];
	int qc = gen_unit_quat<T>(c, q);
	c.cls(QC_NAME[qc]);
	if (c.verbose) c.logf("q=wxyz%s (%s)", astr(q, 4).c_str(), QC_KEY[qc]);
	const R eps = EPS<T>();
	Qn rq = qn_of_arr(q);
	glm::qua<T> Q = GQ(q);
	glm::vec<3, T> e = glm::eulerAngles(Q);
	{
		T p = glm::pitch(Q), y = glm::yaw(Q), r = glm::roll(Q);
		if (!fp::same_bits(p, e.x) || !fp::same_bits(y, e.y) || !fp::same_bits(r, e.z))
			c.failk(key<T>("eulerAngles", "pitch-yaw-roll-as-xyz"), "eulerAngles(q)=%s but (pitch,yaw,roll)=(%s,%s,%s), q=wxyz%s", gv(e).c_str(), fstr(p).c_str(), fstr(y).c_str(), fstr(r).c_str(), astr(q, 4).c_str());
	}
	R sy, cy; yaw_of(rq, &sy, &cy);
	bool exact_half = true;
	for (int i = 0; i < 4; ++i) exact_half = exact_half && std::fabs(q[i]) == T(0.5);
	const bool exact_gimbal = exact_half && cy == 0;
	R tol;
	if (exact_gimbal) { tol = 32 * eps; c.cls("exact gimbal lock ((+-1/2)^4, exact arithmetic): singularity rule compared at 32 eps"); }
	else tol = 16 * eps * (1 + 1 / rmax(cy, (R)1e-30L));
	if (cy < 1e-3L) c.cls("cos(yaw) < 1e-3 (gimbal neighbourhood)");
	glm::qua<T> back(e);
	bool finite = fp::is_finite(e.x) && fp::is_finite(e.y) && fp::is_finite(e.z);
	if (!finite) c.failk(key<T>("eulerAngles", "finite", QC_KEY[qc]), "eulerAngles(wxyz%s)=%s is not finite", astr(q, 4).c_str(), gv(e).c_str());
	if (tol >= 0.5L) { c.cls("round trip not compared: bound >= 0.5 (within ~32 eps of gimbal lock)"); }
	else if (finite) {
		if (tol < 1e-2L) c.nontrivial();
		R err = qrotdist(qn_of(back), rq);
		if (!within(c, "qua(eulerAngles(q)) vs +-q err/tol", err, tol))
			c.failk(key<T>("qua(eulerAngles)", exact_gimbal ? "round-trip-exact-gimbal-lock" : "round-trip", QC_KEY[qc]), "qua(eulerAngles(q)=%s)=%s does not rotate like q=wxyz%s (err %.3Lg, tol %.3Lg, cos(yaw)=%.3Lg)", gv(e).c_str(), gq(back).c_str(), astr(q, 4).c_str(), err, tol, cy);
	}
	{  // generated angle triple (pitch, yaw, roll): qua(vec3) = qz(roll) qy(yaw) qx(pitch); its matrix is the gtx product Z*Y*X
		int c0, c1, c2;
		T p = gen_angle<T>(c, &c0), y = gen_angle<T>(c, &c1), r = gen_angle<T>(c, &c2);
		c.cls(AC_NAME[c1]);
		if (c.verbose) c.logf("euler triple (pitch,yaw,roll)=(%s,%s,%s)", fstr(p).c_str(), fstr(y).c_str(), fstr(r).c_str());
		glm::vec<3, T> E; E.x = p; E.y = y; E.z = r;
		glm::qua<T> g(E);
		Qn want = qmul(qmul(q_coord(2, (R)r), q_coord(1, (R)y)), q_coord(0, (R)p));
		R err = qmaxdiff(qn_of(g), want);
		if (!within(c, "qua(vec3(pitch,yaw,roll)) err/tol", err, 16 * eps))
			c.failk(key<T>("qua(eulerAngles-vec3)", "Rz(roll)Ry(yaw)Rx(pitch)"), "qua(vec3(%s,%s,%s))=%s, qz(roll)*qy(yaw)*qx(pitch)=%s (err %.3Lg)", fstr(p).c_str(), fstr(y).c_str(), fstr(r).c_str(), gq(g).c_str(), qstr(want).c_str(), err);
		M3 A = m3_of(glm::mat3_cast(g)), B = m3_of(glm::mat<3, 3, T>(glm::eulerAngleZ(r) * glm::eulerAngleY(y) * glm::eulerAngleX(p)));
		R em = mmaxdiff(A, B);
		if (!within(c, "mat3_cast(qua(euler)) vs eulerAngleZ*Y*X err/tol", em, 48 * eps))
			c.failk(key<T>("mat3_cast(qua(eulerAngles-vec3))", "equals-gtx-eulerAngleZ*Y*X"), "mat3_cast(qua(vec3(%s,%s,%s)))=%s but eulerAngleZ(roll)*eulerAngleY(yaw)*eulerAngleX(pitch)=%s (err %.3Lg)", fstr(p).c_str(), fstr(y).c_str(), fstr(r).c_str(), mstr(A).c_str(), mstr(B).c_str(), em);
		// eulerAngles recovers a triple that describes the same rotation (compared as rotations; conditioning 1/cos(yaw) as above)
		glm::vec<3, T> e2 = glm::eulerAngles(g);
		R sy2, cy2; yaw_of(qn_of(g), &sy2, &cy2);
		R tol2 = 16 * eps * (1 + 1 / rmax(cy2, (R)1e-30L));
		if (tol2 < 0.5L) {
			Qn rb = qmul(qmul(q_coord(2, (R)e2.z), q_coord(1, (R)e2.y)), q_coord(0, (R)e2.x));
			R e3 = qrotdist(rb, qn_of(g));
			if (!within(c, "eulerAngles(qua(euler)) same rotation err/tol", e3, tol2))
				c.failk(key<T>("eulerAngles(qua(vec3))", "same-rotation"), "eulerAngles(qua(vec3(%s,%s,%s)))=%s describes another rotation (err %.3Lg, tol %.3Lg)", fstr(p).c_str(), fstr(y).c_str(), fstr(r).c_str(), gv(e2).c_str(), e3, tol2);
		}
	}
}
REG2(eulerquat, "euler-quat", 400000, 10000000,
     "unit quaternions (all classes incl. qz(roll) qy(+-(pi/2 -+ 1e-9..1e-2)) qx(pitch) and the eight exact gimbal-lock quaternions (+-1/2)^4) and generated (pitch,yaw,roll) triples incl. yaw = k pi/2 +- ulps; "
     "qua(eulerAngles(q)) must rotate like q within 16 eps (1 + 1/cos yaw) (exact gimbal lock: 32 eps), pitch/yaw/roll are the components of eulerAngles, qua(vec3) = qz qy qx in long double, its matrix equals "
     "eulerAngleZ*eulerAngleY*eulerAngleX; non-trivial = the bound is below 1e-2");

// =====================================================================================================================
// Quaternion from two unit vectors: qua(u,v) (core) and rotation(u,v) (gtx) map u onto v by the shortest arc.
//   qua(u,v): q ~ (1 + u.v, u x v) normalised; 1 + u.v cancels near antiparallel: angle error ~ u / |u+v|. Below 1 + u.v < 1e-6 (|u+v| < 1.4e-3)
//   a half turn about an axis orthogonal to u is returned: it maps u to -u, i.e. within |u+v| of v.
//   rotation(u,v): identity for u.v >= 1 - eps (error |u-v| <= sqrt(2 eps)), half turn for u.v < -1 + eps (error |u+v|), else
//   (s/2, (u x v)/s) with s = sqrt(2(1 + u.v)): s^2 has absolute error ~4u, so the result is accurate to ~u/(1 + u.v) only.
template <class T> static void twovec(pbt::Ctx& c) {
	T a[3], b[3];
	gen_unit_vec3<T>(c, a);
	const R eps = EPS<T>(), u = U<T>();
	V3 ra = v3_of_arr(a);
	int rel = (int)c.draw(8);
	static const char* const RN[] = {"pair:independent", "pair:independent", "pair:independent", "pair:nearly parallel", "pair:nearly antiparallel", "pair:exactly antiparallel", "pair:equal", "pair:orthogonal"};
	{
		V3 t;
		if (rel <= 2) t = gen_dir(c);
		else if (rel == 3 || rel == 4) {  // at angle 1e-9..1e-1 from +-a
			V3 p = vcross(ra, gen_dir(c)); if (vnorm(p) < 1e-6L) p = vcross(ra, V3{0.3L, -0.5L, 0.8L}); p = vunit(p);
			R th = c.loguniform(1e-9, 1e-1);
			t = vadd(vscale(ra, cosl(th)), vscale(p, sinl(th)));
			if (rel == 4) t = vscale(t, -1);
		} else if (rel == 5) t = vscale(ra, -1);
		else if (rel == 6) t = ra;
		else { V3 p = vcross(ra, gen_dir(c)); if (vnorm(p) < 1e-6L) p = vcross(ra, V3{0.3L, -0.5L, 0.8L}); t = vunit(p); }
		t = vunit(t);
		b[0] = (T)t.x; b[1] = (T)t.y; b[2] = (T)t.z;
	}
	c.cls(RN[rel]);
	if (c.verbose) c.logf("u=%s v=%s (%s)", astr(a, 3).c_str(), astr(b, 3).c_str(), RN[rel]);
	V3 rb = v3_of_arr(b);
	V3 ua = vunit(ra), ub = vunit(rb);
	const R dotv = vdot(ua, ub), sum = vnorm(vadd(ua, ub)), dif = vnorm(vsub(ua, ub));
	const R onepc = sum * sum / 2;  // 1 + cos(theta), computed without cancellation
	if (sum > 1e-2L && dif > 1e-2L) c.nontrivial();
	glm::vec<3, T> A = GV(a), B = GV(b);
	// general: the documented formula within `tol` (unit length, u -> v, axis orthogonal to u+v, w >= 0). special: the documented special case
	// (1 = half turn about an axis orthogonal to u: unit, w ~ 0, u -> -u; 2 = exactly the identity quaternion). Near a threshold either is accepted.
	auto check = [&](bool isq, const glm::qua<T>& g, R tol, int special, bool general_allowed, const char* cls) {
		const char* fn = isq ? "qua(u,v)" : "rotation(u,v)";
		Qn rg = qn_of(g);
		bool fin = fp::is_finite(g.w) && fp::is_finite(g.x) && fp::is_finite(g.y) && fp::is_finite(g.z);
		if (!fin) { c.failk(key<T>(fn, "finite", cls), "%s(u=%s,v=%s)=%s is not finite", fn, astr(a, 3).c_str(), astr(b, 3).c_str(), gq(g).c_str()); return; }
		if (general_allowed && !special && tol >= 0.5L) { c.cls("two vectors: bound >= 0.5, not compared (antiparallel to within rounding)"); return; }
		R len = qnorm(rg);
		V3 img = mvec(qrot(rg), ua);
		R rs = 1e30L, rgn = 1e30L;
		const char* what = "";
		if (special == 1) rs = rmax(rmax(rabs(len - 1), rabs(rg.w)), vmaxabs(vadd(img, ua))) / (32 * eps);
		if (special == 2) rs = (g.w == 1 && g.x == 0 && g.y == 0 && g.z == 0) ? 0 : 1e30L;
		if (general_allowed) {
			R e1 = rabs(len - 1), e2 = vmaxabs(vsub(img, ub)), e3 = sum > 1e-3L ? rabs(vdot(qvec(qunit(rg)), vscale(vadd(ua, ub), 1 / sum))) : 0, e4 = rg.w < 0 ? -rg.w : 0;
			rgn = rmax(rmax(e1, e2), rmax(e3, e4)) / tol;
			what = e2 >= e1 && e2 >= e3 && e2 >= e4 ? "maps-u-to-v" : (e1 >= e3 && e1 >= e4 ? "unit-length" : (e3 >= e4 ? "shortest-arc-axis" : "shortest-arc-w>=0"));
		}
		R r = rmin(rs, rgn);
		if (!(r == r)) r = 1e30L;
		const char* metric = special && general_allowed ? (isq ? "qua(u,v) threshold zone (either branch) err/tol" : "rotation(u,v) threshold zone (either branch) err/tol")
		                     : special == 1 ? (isq ? "qua(u,v) half-turn branch err/tol" : "rotation(u,v) half-turn branch err/tol")
		                     : special == 2 ? "rotation(u,v) identity branch (exact)" : (isq ? "qua(u,v) general branch err/tol" : "rotation(u,v) general branch err/tol");
		c.metric(metric, (double)rmin(r, 1e30L));
		if (r > 1)
			c.failk(key<T>(fn, special && !general_allowed ? (special == 1 ? "half-turn-about-orthogonal-axis" : "identity") : what, cls), "%s(u=%s,v=%s)=%s: length %.17Lg, rotates u to %s (%s; ratio to bound %.3Lg, bound %.3Lg, |u+v|=%.3Lg)",
			        fn, astr(a, 3).c_str(), astr(b, 3).c_str(), gq(g).c_str(), len, vstr(img).c_str(), cls, r, tol, sum);
	};
	{  // core constructor: half turn when 1 + u.v < 1e-6 (relative to |u||v|); 1 + u.v carries ~4u absolute error
		glm::qua<T> g(A, B);
		const R thr = 1e-6L, band = 16 * u, tol = 16 * eps * (1 + 1 / rmax(sum, (R)1e-30L));
		if (onepc < thr - band) { c.cls("qua(u,v): half-turn branch (1+u.v < 1e-6)"); check(true, g, tol, 1, false, "antiparallel-branch"); }
		else if (onepc <= thr + band) { c.cls("qua(u,v): within rounding of the branch threshold"); check(true, g, tol, 1, true, "branch-boundary"); }
		else { c.cls("qua(u,v): general branch"); check(true, g, tol, 0, true, "general"); }
	}
	{  // gtx rotation(): identity for u.v >= 1 - eps, half turn for u.v < -1 + eps; u.v carries ~2u absolute error
		glm::qua<T> g = glm::rotation(A, B);
		const R band = 8 * u, onemc = dif * dif / 2, tol = 16 * eps * (1 + 1 / rmax(onepc, (R)1e-30L));
		if (onemc < eps - band) { c.cls("rotation(u,v): identity branch (u.v >= 1-eps)"); check(false, g, tol, 2, false, "parallel-branch"); }
		else if (onemc <= eps + band) { c.cls("rotation(u,v): within rounding of the identity threshold"); check(false, g, tol, 2, true, "parallel-boundary"); }
		else if (b[0] == -a[0] && b[1] == -a[1] && b[2] == -a[2]) { c.cls("rotation(u,v): v = -u exactly (half turn expected)"); check(false, g, tol, 1, false, "exactly-antiparallel"); }
		else if (onepc <= eps + band) { c.cls("rotation(u,v): within rounding of the half-turn threshold, v != -u (not compared: 1/(1+u.v) conditioning)"); }
		else { c.cls("rotation(u,v): general branch"); check(false, g, tol, 0, true, "general"); }
	}
	(void)dotv;
}
REG2(twovec, "two-vectors", 400000, 10000000,
     "pairs of unit vec3 rounded to T: independent, at 1e-9..1e-1 rad from parallel and from antiparallel, exactly antiparallel, equal, orthogonal; qua(u,v) and gtx rotation(u,v) must be unit, map u onto v "
     "and use the shortest arc (axis orthogonal to u+v, w >= 0) within the conditioning of the documented formula (1/|u+v| resp. 1/(1+u.v)); in the half-turn / identity branches the result is within |u+v| resp. |u-v| of exact; "
     "either branch is accepted within rounding of a threshold; non-trivial = u and v at more than 1e-2 from parallel and antiparallel");

int main(int argc, char** argv) {
	{  // the configuration this binary claims to be must be the one GLM was compiled in
		glm::qua<float> q; q.w = 1; q.x = 2; q.y = 3; q.z = 4;
		const float* p = &q.x < &q.w ? &q.x : &q.w;
		bool wfirst = p[0] == 1.0f;
		if (wfirst != (std::string(C04_CFG).compare(0, 4, "wxyz") == 0)) { fprintf(stderr, "C04: binary built as %s but quaternion storage starts with %s\n", C04_CFG, wfirst ? "w" : "x"); return 2; }
	}
	return pbt::pbt_main(argc, argv, "C04");
}
