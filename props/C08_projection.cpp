// C08 — projection builders map the view volume onto the configured clip volume (glm/ext/matrix_clip_space, matrix_projection).
// This file is compiled once per clip-control configuration {default, GLM_FORCE_LEFT_HANDED, GLM_FORCE_DEPTH_ZERO_TO_ONE, both};
// C08_CFG names the configuration (it is part of every target name) and C08_EXPECT_LH / C08_EXPECT_ZO say which suffixed
// variant the documentation promises behind the unsuffixed / half-suffixed names in that configuration.
//
// Oracles (engine/ref/refproj.hpp, long double, no GLM code):
//   builders   the 8 corners of the view volume described by the parameters (for perspective: top = near*tan(fovy/2),
//              right = top*aspect, far corners scaled by far/near) are pushed through GLM's matrix in long double; after the divide
//              they must be x,y = -1/+1, z = -1 (NO) | 0 (ZO) at near and +1 at far, with clip w > 0, looking down -z (RH) / +z (LH).
//              Tolerance: k roundings per matrix element propagated through the cancellation of the row:
//              8 * (k u S_i + |ndc_i| k u S_w)/|w|, S_i = sum_j |M_ij p_j|  (= the (|l|+|r|)/(r-l) and (f+n)/(f-n) conditioning).
//   relations  perspective == frustum(-r,r,-t,t) and perspectiveFov == perspective(fov, width/height), element by element;
//              infinitePerspective: z(d) = 1 - (1 - z_near) near/d for d = near * 2^j and -> 1; tweakedInfinitePerspective: -> 1 - ep, < 1.
//   dispatch   BITS: every unsuffixed / half-suffixed function returns exactly the matrix of the variant selected by the macros.
//   project    gluProject / gluUnProject definitions in long double (unProject by a Gauss-Jordan solve in __float128) with first-order
//              forward error bounds; round trips both ways with the bound of one step propagated through the Jacobian of the other;
//              volume corners -> viewport rectangle corners and depth {0,1}; pickMatrix: pick-region corners -> (+-1,+-1), z, w untouched.
#include "fp.hpp"
#define NOINLINE_SINK __attribute__((noinline))
#include "ref/refproj.hpp"
#include <glm/glm.hpp>
#include <glm/gtc/matrix_transform.hpp>
#include <string>
#if __has_include("c08_have.hpp")
#include "c08_have.hpp"  // written by the link pre-pass of lib/specs/C08.py
#endif
#ifndef HAVE_infinitePerspectiveLH
#define HAVE_infinitePerspectiveLH 0
#define HAVE_ERR_infinitePerspectiveLH "link pre-pass not run"
#endif
#ifndef HAVE_infinitePerspectiveRH
#define HAVE_infinitePerspectiveRH 0
#define HAVE_ERR_infinitePerspectiveRH "link pre-pass not run"
#endif

#ifndef C08_CFG
#define C08_CFG "rh_no"
#endif
#ifdef C08_EXPECT_LH
static const bool CFG_LH = true;
#else
static const bool CFG_LH = false;
#endif
#ifdef C08_EXPECT_ZO
static const bool CFG_ZO = true;
#else
static const bool CFG_ZO = false;
#endif

using namespace refproj;

template <class T> using M4 = glm::mat<4, 4, T, glm::defaultp>;
template <class T> using V3 = glm::vec<3, T, glm::defaultp>;
template <class T> static Mat lift(const M4<T>& g) { Mat r; for (int c = 0; c < 4; ++c) for (int i = 0; i < 4; ++i) r.m[c][i] = (R)g[c][i]; return r; }
template <class T> static M4<T> lower(const Mat& m) { M4<T> g(T(0)); for (int c = 0; c < 4; ++c) for (int i = 0; i < 4; ++i) g[c][i] = (T)m.m[c][i]; return g; }
template <class T> static int first_bit_difference(const M4<T>& a, const M4<T>& b) { for (int c = 0; c < 4; ++c) for (int i = 0; i < 4; ++i) if (!fp::same_bits(a[c][i], b[c][i])) return c * 4 + i; return -1; }
template <class T> static const char* fmtT() { return sizeof(T) == 4 ? "%.9g" : "%.17g"; }
template <class T> static std::string num(T x) { char b[48]; snprintf(b, sizeof b, fmtT<T>(), (double)x); return b; }
static std::string numR(R x) { char b[48]; snprintf(b, sizeof b, "%.12Lg", x); return b; }
template <class T> static std::string args(std::initializer_list<T> l) { std::string s = "("; bool f = true; for (T x : l) { if (!f) s += ", "; f = false; s += num(x); } return s + ")"; }
static inline bool within(pbt::Ctx& c, const char* metric, R err, R tol) { R r = err == 0 ? 0 : err / tol; c.metric(metric, r < 1e30L ? (double)r : 1e30); return err <= tol; }

#define REG2(fn, name, q, t, rule) \
	static void fn##_f(pbt::Ctx& c) { fn<float>(c); } PBT_RANDOM(name "/" C08_CFG "/float", fn##_f, q, t, rule); \
	static void fn##_d(pbt::Ctx& c) { fn<double>(c); } PBT_RANDOM(name "/" C08_CFG "/double", fn##_d, q, t, rule)

// ---------------------------------------------------------------------------------------------
// variants of one builder family: 0..3 fully suffixed, 4..7 half suffixed, 8 unsuffixed
struct Conv { bool lh, zo; };
static Conv conv_of(int v) {
	switch (v) {
	case 0: return {false, false}; case 1: return {false, true}; case 2: return {true, false}; case 3: return {true, true};
	case 4: return {CFG_LH, true}; case 5: return {CFG_LH, false}; case 6: return {true, CFG_ZO}; case 7: return {false, CFG_ZO};
	default: return {CFG_LH, CFG_ZO};
	}
}
static int explicit_of(Conv cv) { return (cv.lh ? 2 : 0) + (cv.zo ? 1 : 0); }
static const char* conv_name(Conv cv) { static const char* const N[] = {"RH_NO", "RH_ZO", "LH_NO", "LH_ZO"}; return N[explicit_of(cv)]; }
#define NAMES9(fn) {#fn "RH_NO", #fn "RH_ZO", #fn "LH_NO", #fn "LH_ZO", #fn "ZO", #fn "NO", #fn "LH", #fn "RH", #fn}
#define CALL9(fn, ...) switch (v) { \
	case 0: return glm::fn##RH_NO(__VA_ARGS__); case 1: return glm::fn##RH_ZO(__VA_ARGS__); case 2: return glm::fn##LH_NO(__VA_ARGS__); case 3: return glm::fn##LH_ZO(__VA_ARGS__); \
	case 4: return glm::fn##ZO(__VA_ARGS__); case 5: return glm::fn##NO(__VA_ARGS__); case 6: return glm::fn##LH(__VA_ARGS__); case 7: return glm::fn##RH(__VA_ARGS__); default: return glm::fn(__VA_ARGS__); }
static const char* const ORTHO_N[9] = NAMES9(ortho);
static const char* const FRUSTUM_N[9] = NAMES9(frustum);
static const char* const PERSP_N[9] = NAMES9(perspective);
static const char* const PFOV_N[9] = NAMES9(perspectiveFov);
template <class T> static M4<T> call_ortho(int v, T l, T r, T b, T t, T n, T f) { CALL9(ortho, l, r, b, t, n, f) }
template <class T> static M4<T> call_frustum(int v, T l, T r, T b, T t, T n, T f) { CALL9(frustum, l, r, b, t, n, f) }
template <class T> static M4<T> call_perspective(int v, T fovy, T a, T n, T f) { CALL9(perspective, fovy, a, n, f) }
template <class T> static M4<T> call_pfov(int v, T fov, T w, T h, T n, T f) { CALL9(perspectiveFov, fov, w, h, n, f) }

// BITS: a dispatching name must return exactly what the selected fully-suffixed variant returns
template <class T> static void check_dispatch(pbt::Ctx& c, const char* name, const char* family, Conv cv, const M4<T>& got, const M4<T>& want, const std::string& a) {
	int d = first_bit_difference(got, want);
	if (d >= 0)
		c.failk(std::string(name) + "/dispatch", "%s%s differs from %s%s (the variant selected in configuration " C08_CFG ") at [%d][%d]: %.17g vs %.17g", name, a.c_str(), family, conv_name(cv), d / 4, d % 4,
		        (double)got[d / 4][d % 4], (double)want[d / 4][d % 4]);
}

// The 8 corners of the view volume through M. Extents l,r,b,t are those of the near plane; persp: far corners scale by far/near.
// planes: bit 0 near, bit 1 far. Returns the largest tolerance used (a case whose tolerance exceeds 1e-2 is counted as trivial).
template <class T> static R check_volume(pbt::Ctx& c, const char* name, const std::string& a, const Mat& M, R l, R r, R b, R t, R n, R f, bool persp, Conv cv, int k, int planes = 3) {
	R maxtol = 0;
	for (int ci = 0; ci < 8; ++ci) {
		const int ix = ci & 1, iy = (ci >> 1) & 1, iz = ci >> 2;
		if (!((planes >> iz) & 1)) continue;
		const R d = iz ? f : n, s = persp ? d / n : 1;
		const R p[3] = {(ix ? r : l) * s, (iy ? t : b) * s, cv.lh ? d : -d};
		Corner o; through<T>(M, p, k, o);
		if (!(o.clip[3] > 0)) {
			c.failk(std::string(name) + "/w-sign", "%s%s: %s corner (%s,%s,%s) of the view volume (in front of the viewer for a %s-handed projection) gets clip w = %s, not > 0", name, a.c_str(), iz ? "far" : "near",
			        numR(p[0]).c_str(), numR(p[1]).c_str(), numR(p[2]).c_str(), cv.lh ? "left" : "right", numR(o.clip[3]).c_str());
			continue;
		}
		const R e[3] = {ix ? 1.0L : -1.0L, iy ? 1.0L : -1.0L, iz ? 1.0L : (cv.zo ? 0.0L : -1.0L)};
		static const char* const KEY[4] = {"/x", "/y", "/z-near", "/z-far"};
		static const char* const MET[3] = {"corner x err/tol", "corner y err/tol", "corner z err/tol"};
		for (int i = 0; i < 3; ++i) {
			R tol = 8 * o.bound[i] + TINY<T>();
			if (tol > maxtol) maxtol = tol;
			if (!within(c, MET[i], rabs(o.ndc[i] - e[i]), tol))
				c.failk(std::string(name) + KEY[i == 2 ? 2 + iz : i], "%s%s: %s corner (%s,%s,%s) -> ndc %c = %s, expected %+.0Lf (%s, tolerance %.3Lg)", name, a.c_str(), iz ? "far" : "near", numR(p[0]).c_str(),
				        numR(p[1]).c_str(), numR(p[2]).c_str(), "xyz"[i], numR(o.ndc[i]).c_str(), e[i], conv_name(cv), tol);
		}
	}
	return maxtol;
}

template <class M> static NOINLINE_SINK void sink(const M& m) { __asm__ volatile("" : : "r"(&m) : "memory"); }
// element-by-element comparison of two GLM matrices that the statement says are the same projection (relative tolerance kk u)
template <class T> static void check_same_matrix(pbt::Ctx& c, const char* metric, const std::string& key, const M4<T>& A, const M4<T>& B, int kk, const std::string& what) {
	for (int cc = 0; cc < 4; ++cc) for (int i = 0; i < 4; ++i) {
		R x = (R)A[cc][i], y = (R)B[cc][i];
		if (!within(c, metric, rabs(x - y), 8 * kk * U<T>() * rmax(rabs(x), rabs(y)) + TINY<T>()))
			c.failk(key, "%s: element [%d][%d] %.17g vs %.17g", what.c_str(), cc, i, (double)A[cc][i], (double)B[cc][i]);
	}
}

// =============================================================================================
// ortho: 9 six-argument variants + the four-argument 2D form (gluOrtho2D = glOrtho with near -1, far 1)
template <class T> static void ortho_p(pbt::Ctx& c) {
	const int v = (int)c.draw(10);
	T l, r, b, t, n = -1, f = 1;
	const int xc = gen_interval(c, l, r), yc = gen_interval(c, b, t);
	int dc = -1;
	if (v < 9) dc = gen_depth(c, n, f);
	if (c.draw(4) == 0) { const T sc = (T)std::ldexp(1.0, (int)c.range(-36, 16)); l *= sc; r *= sc; b *= sc; t *= sc; if (v < 9) { n *= sc; f *= sc; } c.cls("volume scaled by 2^k"); }
	const char* name = v < 9 ? ORTHO_N[v] : "ortho2D";
	c.cls(name); c.cls(IVX_NAME[xc]); c.cls(IVY_NAME[yc]); if (dc >= 0) c.cls(DP_NAME[dc]);
	const std::string a = v < 9 ? args<T>({l, r, b, t, n, f}) : args<T>({l, r, b, t});
	c.logf("%s%s", name, a.c_str());
	const Conv cv = v < 9 ? conv_of(v) : Conv{false, false};
	// a builder is a pure function of its arguments: half of the cases evaluate f(args), then the same function on another volume, then
	// f(args) again: the two results must be bit-identical (a two-call history inside the case, so that a dependence on the previous call
	// replays from the choice list of this case alone)
	if (c.coin()) {
		T l2, r2, b2, t2, n2 = -1, f2 = 1; gen_interval(c, l2, r2); gen_interval(c, b2, t2); if (v < 9) gen_depth(c, n2, f2);
		const M4<T> G1 = v < 9 ? call_ortho<T>(v, l, r, b, t, n, f) : glm::ortho(l, r, b, t); sink(G1);
		const M4<T> W = v < 9 ? call_ortho<T>(v, l2, r2, b2, t2, n2, f2) : glm::ortho(l2, r2, b2, t2); sink(W);
		const M4<T> G2 = v < 9 ? call_ortho<T>(v, l, r, b, t, n, f) : glm::ortho(l, r, b, t); sink(G2);
		c.cls("preceded by another call of the same builder");
		if (memcmp(&G1, &G2, sizeof G1) != 0) c.failk(std::string(name) + "/depends-on-previous-call", "%s%s returns a different matrix after %s%s was built in between", name, a.c_str(), name, (v < 9 ? args<T>({l2, r2, b2, t2, n2, f2}) : args<T>({l2, r2, b2, t2})).c_str());
	}
	const M4<T> G = v < 9 ? call_ortho<T>(v, l, r, b, t, n, f) : glm::ortho(l, r, b, t);
	if (v >= 4 && v < 9) check_dispatch(c, name, "ortho", cv, G, call_ortho<T>(explicit_of(cv), l, r, b, t, n, f), a);
	R mt = check_volume<T>(c, name, a, lift(G), l, r, b, t, n, f, false, cv, 4);
	const bool off = (l != -r) || (b != -t);
	if (off) c.cls("off-centre volume");
	if (mt > 1e-2L) c.cls("ill-conditioned (tolerance > 1e-2, counted trivial)");
	else if (off && (v == 9 || n != 1)) c.nontrivial();
}
REG2(ortho_p, "ortho", 250000, 4000000,
     "one of ortho{RH,LH}_{NO,ZO}, orthoZO/NO/LH/RH, ortho (6 arguments) and ortho (4 arguments, gluOrtho2D) per case; left<right and bottom<top as small ints / symmetric / one side 0 / screen 0..N / "
     "off-centre / far off-centre with widths 1e-3..1e4, 0<near<far with far/near from 1.001 to 1e6; the 8 volume corners must map to the clip cube corners of the variant's convention, dispatching names "
     "must be bit-identical to the selected variant; non-trivial = off-centre volume (translation terms matter), near != 1, tolerance <= 1e-2");

// =============================================================================================
// frustum: extents given on the near plane
template <class T> static void frustum_p(pbt::Ctx& c) {
	const int v = (int)c.draw(9);
	T l, r, b, t, n, f;
	const int xc = gen_interval(c, l, r), yc = gen_interval(c, b, t), dc = gen_depth(c, n, f);
	// every fourth case: the whole volume scaled exactly by 2^k (k in [-36, 16]). The statement quantifies over all finite volumes; the
	// corner mapping is scale invariant, so absolute thresholds inside a builder only show on very small or very large volumes
	if (c.draw(4) == 0) { const T sc = (T)std::ldexp(1.0, (int)c.range(-36, 16)); l *= sc; r *= sc; b *= sc; t *= sc; n *= sc; f *= sc; c.cls("volume scaled by 2^k"); }
	const char* name = FRUSTUM_N[v];
	c.cls(name); c.cls(IVX_NAME[xc]); c.cls(IVY_NAME[yc]); c.cls(DP_NAME[dc]);
	const std::string a = args<T>({l, r, b, t, n, f});
	c.logf("%s%s", name, a.c_str());
	const Conv cv = conv_of(v);
	if (c.coin()) {  // two-call history, as for ortho
		T l2, r2, b2, t2, n2, f2; gen_interval(c, l2, r2); gen_interval(c, b2, t2); gen_depth(c, n2, f2);
		const M4<T> G1 = call_frustum<T>(v, l, r, b, t, n, f); sink(G1);
		sink(call_frustum<T>(v, l2, r2, b2, t2, n2, f2));
		const M4<T> G2 = call_frustum<T>(v, l, r, b, t, n, f); sink(G2);
		c.cls("preceded by another call of the same builder");
		if (memcmp(&G1, &G2, sizeof G1) != 0) c.failk(std::string(name) + "/depends-on-previous-call", "%s%s returns a different matrix after %s%s was built in between", name, a.c_str(), name, args<T>({l2, r2, b2, t2, n2, f2}).c_str());
	}
	const M4<T> G = call_frustum<T>(v, l, r, b, t, n, f);
	if (v >= 4) check_dispatch(c, name, "frustum", cv, G, call_frustum<T>(explicit_of(cv), l, r, b, t, n, f), a);
	R mt = check_volume<T>(c, name, a, lift(G), l, r, b, t, n, f, true, cv, 4);
	const bool off = (l != -r) || (b != -t);
	if (off) c.cls("off-centre volume");
	if (mt > 1e-2L) c.cls("ill-conditioned (tolerance > 1e-2, counted trivial)");
	else if (off && n != 1) c.nontrivial();
}
REG2(frustum_p, "frustum", 250000, 4000000,
     "one of frustum{RH,LH}_{NO,ZO}, frustumZO/NO/LH/RH, frustum per case; near-plane extents and depths as for ortho; near corners (x,y,-+near) and far corners (x f/n, y f/n, -+far) must map to the clip "
     "cube corners with clip w > 0; dispatching names bit-identical to the selected variant; non-trivial = off-centre volume, near != 1, tolerance <= 1e-2");

// =============================================================================================
// perspective: top = near tan(fovy/2), right = top aspect; equals the symmetric frustum
template <class T> static void perspective_p(pbt::Ctx& c) {
	const int v = (int)c.draw(9);
	T fovy, asp, n, f;
	const int fc = gen_fov(c, fovy), ac = gen_aspect(c, asp), dc = gen_depth(c, n, f);
	const char* name = PERSP_N[v];
	c.cls(name); c.cls(FV_NAME[fc]); c.cls(AS_NAME[ac]); c.cls(DP_NAME[dc]);
	const std::string a = args<T>({fovy, asp, n, f});
	c.logf("%s%s", name, a.c_str());
	const Conv cv = conv_of(v);
	if (c.coin()) {  // two-call history, as for ortho
		T fovy2, asp2, n2, f2; gen_fov(c, fovy2); gen_aspect(c, asp2); gen_depth(c, n2, f2);
		const M4<T> G1 = call_perspective<T>(v, fovy, asp, n, f); sink(G1);
		sink(call_perspective<T>(v, fovy2, asp2, n2, f2));
		const M4<T> G2 = call_perspective<T>(v, fovy, asp, n, f); sink(G2);
		c.cls("preceded by another call of the same builder");
		if (memcmp(&G1, &G2, sizeof G1) != 0) c.failk(std::string(name) + "/depends-on-previous-call", "%s%s returns a different matrix after %s%s was built in between", name, a.c_str(), name, args<T>({fovy2, asp2, n2, f2}).c_str());
	}
	const M4<T> G = call_perspective<T>(v, fovy, asp, n, f);
	if (v >= 4) check_dispatch(c, name, "perspective", cv, G, call_perspective<T>(explicit_of(cv), fovy, asp, n, f), a);
	const R top = (R)n * tanl((R)fovy / 2), right = top * (R)asp;
	R mt = check_volume<T>(c, name, a, lift(G), -right, right, -top, top, n, f, true, cv, 6);
	// the same volume handed to frustum (extents rounded to T: one more rounding each)
	const T tT = (T)top, rT = (T)right;
	if (tT > 0 && rT > 0 && fp::is_finite(tT) && fp::is_finite(rT)) {
		const M4<T> F = call_frustum<T>(explicit_of(cv), -rT, rT, -tT, tT, n, f);
		check_same_matrix<T>(c, "perspective vs symmetric frustum err/tol", std::string(name) + "/equals-symmetric-frustum", G, F, 12,
		                     std::string(name) + a + " vs frustum" + conv_name(cv) + args<T>({-rT, rT, -tT, tT, n, f}));
	}
	if (mt > 1e-2L) c.cls("ill-conditioned (tolerance > 1e-2, counted trivial)");
	else if (asp != 1 && n != 1) c.nontrivial();
}
REG2(perspective_p, "perspective", 250000, 4000000,
     "one of perspective{RH,LH}_{NO,ZO}, perspectiveZO/NO/LH/RH, perspective per case; fovy from a table / uniform (0.05,3) / near 0 / near pi, aspect table / 1 / log-uniform (0.1,10) / integer ratios, "
     "0<near<far as for ortho; corners of the frustum with top = near tan(fovy/2) (long double), right = top aspect must map to the clip cube corners; the matrix must equal frustum(-right,right,-top,top,near,far) "
     "of the same convention element by element; dispatching names bit-identical; non-trivial = aspect != 1 (x and y scale differ), near != 1, tolerance <= 1e-2");

// =============================================================================================
// perspectiveFov: perspective with aspect = width / height
template <class T> static void pfov_p(pbt::Ctx& c) {
	const int v = (int)c.draw(9);
	T fov, w, h, n, f;
	const int fc = gen_fov(c, fov), sc = gen_size(c, w, h), dc = gen_depth(c, n, f);
	const char* name = PFOV_N[v];
	c.cls(name); c.cls(FV_NAME[fc]); c.cls(WH_NAME[sc]); c.cls(DP_NAME[dc]);
	const std::string a = args<T>({fov, w, h, n, f});
	c.logf("%s%s", name, a.c_str());
	const Conv cv = conv_of(v);
	const M4<T> G = call_pfov<T>(v, fov, w, h, n, f);
	if (v >= 4) check_dispatch(c, name, "perspectiveFov", cv, G, call_pfov<T>(explicit_of(cv), fov, w, h, n, f), a);
	const R top = (R)n * tanl((R)fov / 2), right = top * ((R)w / (R)h);
	R mt = check_volume<T>(c, name, a, lift(G), -right, right, -top, top, n, f, true, cv, 8);
	const T aT = (T)((R)w / (R)h);
	const M4<T> P = call_perspective<T>(explicit_of(cv), fov, aT, n, f);
	check_same_matrix<T>(c, "perspectiveFov vs perspective err/tol", std::string(name) + "/equals-perspective-of-width-over-height", G, P, 16, std::string(name) + a + " vs perspective" + conv_name(cv) + args<T>({fov, aT, n, f}));
	if (mt > 1e-2L) c.cls("ill-conditioned (tolerance > 1e-2, counted trivial)");
	else if (w != h && n != 1) c.nontrivial();
}
REG2(pfov_p, "perspectiveFov", 250000, 4000000,
     "one of perspectiveFov{RH,LH}_{NO,ZO}, perspectiveFovZO/NO/LH/RH, perspectiveFov per case; fov as for perspective, width/height from a table of screen sizes / integers 1..4096 / log-uniform, depths as for ortho; "
     "corners of the frustum with top = near tan(fov/2), right = top width/height must map to the clip cube corners; the matrix must equal perspective(fov, width/height, near, far) of the same convention element by "
     "element; dispatching names bit-identical; non-trivial = width != height, near != 1, tolerance <= 1e-2");

// =============================================================================================
// infinitePerspective: far plane at infinity. A projective map of depth has the form z(d) = a + b/d; near -> z_near and infinity -> 1
// determine it: z(d) = 1 - (1 - z_near) near/d. Checked at d = near 2^j, j in {0, 1, 3, 10, 24, 40} (all corners) and j = 60 (the limit).
static const char* const INF_N[7] = {"infinitePerspectiveRH_NO", "infinitePerspectiveRH_ZO", "infinitePerspectiveLH_NO", "infinitePerspectiveLH_ZO", "infinitePerspective", "infinitePerspectiveLH", "infinitePerspectiveRH"};
template <class T> static M4<T> call_inf(int v, T fovy, T a, T n) {
	switch (v) {
	case 0: return glm::infinitePerspectiveRH_NO(fovy, a, n); case 1: return glm::infinitePerspectiveRH_ZO(fovy, a, n);
	case 2: return glm::infinitePerspectiveLH_NO(fovy, a, n); case 3: return glm::infinitePerspectiveLH_ZO(fovy, a, n);
#if HAVE_infinitePerspectiveLH
	case 5: return glm::infinitePerspectiveLH(fovy, a, n);
#endif
#if HAVE_infinitePerspectiveRH
	case 6: return glm::infinitePerspectiveRH(fovy, a, n);
#endif
	default: return glm::infinitePerspective(fovy, a, n);
	}
}
// depth of the point at infinity straight ahead, (0,0,-+1,0): the limit of z(d), evaluated exactly instead of at a large d
template <class T> static void depth_at_infinity(const Mat& M, bool lh, int k, R& zinf, R& bound, R& winf) {
	const R dir = lh ? 1 : -1, cz = M.m[2][2] * dir, cw = M.m[2][3] * dir;
	winf = cw; zinf = cz / cw;
	bound = k * U<T>() * (rabs(cz) + rabs(zinf) * rabs(cw)) / rabs(cw);
}
template <class T> static R check_infinite(pbt::Ctx& c, const char* name, const std::string& a, const Mat& M, R right, R top, R n, Conv cv, int k, bool exact_profile) {
	R mt = check_volume<T>(c, name, a, M, -right, right, -top, top, n, n, true, cv, k, 1);  // near corners
	static const int JS[] = {1, 3, 10, 24, 40};
	const R zn = cv.zo ? 0 : -1;
	R prev = zn;  // z at 2 near must already be above the near value
	for (int q = 0; q < 5; ++q) {
		const int j = JS[q];
		const R s = ldexpl(1.0L, j), d = n * s;
		for (int ci = 0; ci < 4; ++ci) {
			const int ix = ci & 1, iy = ci >> 1;
			const R p[3] = {(ix ? right : -right) * s, (iy ? top : -top) * s, cv.lh ? d : -d};
			Corner o; through<T>(M, p, k, o);
			if (!(o.clip[3] > 0)) { c.failk(std::string(name) + "/w-sign", "%s%s: point at distance near*2^%d in front of the viewer gets clip w = %s", name, a.c_str(), j, numR(o.clip[3]).c_str()); continue; }
			const R ex = ix ? 1 : -1, ey = iy ? 1 : -1;
			R tol = 8 * o.bound[0] + TINY<T>(); if (tol > mt) mt = tol;
			if (!within(c, "corner x err/tol", rabs(o.ndc[0] - ex), tol)) c.failk(std::string(name) + "/x", "%s%s: side plane point at distance near*2^%d -> ndc x = %s, expected %+.0Lf", name, a.c_str(), j, numR(o.ndc[0]).c_str(), ex);
			tol = 8 * o.bound[1] + TINY<T>(); if (tol > mt) mt = tol;
			if (!within(c, "corner y err/tol", rabs(o.ndc[1] - ey), tol)) c.failk(std::string(name) + "/y", "%s%s: side plane point at distance near*2^%d -> ndc y = %s, expected %+.0Lf", name, a.c_str(), j, numR(o.ndc[1]).c_str(), ey);
			tol = 8 * o.bound[2] + TINY<T>(); if (tol > mt) mt = tol;
			if (ci == 0) {
				if (exact_profile) {
					const R ez = 1 - (1 - zn) / s;
					if (!within(c, "infinite z(d) err/tol", rabs(o.ndc[2] - ez), tol))
						c.failk(std::string(name) + "/z-far", "%s%s: depth at distance near*2^%d -> ndc z = %s, expected %s (%s)", name, a.c_str(), j, numR(o.ndc[2]).c_str(), numR(ez).c_str(), conv_name(cv));
				}
				if (!(o.ndc[2] > prev)) c.failk(std::string(name) + "/z-monotone", "%s%s: ndc z = %s at distance near*2^%d is not above z = %s at the previous distance", name, a.c_str(), numR(o.ndc[2]).c_str(), j, numR(prev).c_str());
				prev = o.ndc[2];
			}
		}
	}
	R zinf, zb, winf; depth_at_infinity<T>(M, cv.lh, k, zinf, zb, winf);
	if (!(winf > 0)) c.failk(std::string(name) + "/w-sign", "%s%s: the point at infinity straight ahead gets clip w = %s", name, a.c_str(), numR(winf).c_str());
	else {
		if (!(zinf >= prev)) c.failk(std::string(name) + "/z-monotone", "%s%s: ndc z = %s at infinity is below z = %s at distance near*2^40", name, a.c_str(), numR(zinf).c_str(), numR(prev).c_str());
		if (exact_profile && !within(c, "infinite z(inf) err/tol", rabs(zinf - 1), 8 * zb + TINY<T>()))
			c.failk(std::string(name) + "/z-infinity", "%s%s: the point at infinity (0,0,%s1,0) -> ndc z = %s, expected +1", name, a.c_str(), cv.lh ? "+" : "-", numR(zinf).c_str());
	}
	return mt;
}
template <class T> static void infinite_p(pbt::Ctx& c) {
	int avail[7], na = 0;
	for (int i = 0; i < 5; ++i) avail[na++] = i;
	if (HAVE_infinitePerspectiveLH) avail[na++] = 5;
	if (HAVE_infinitePerspectiveRH) avail[na++] = 6;
	const int v = avail[c.draw(na)];
	T fovy, asp;
	const int fc = gen_fov(c, fovy), ac = gen_aspect(c, asp);
	const T n = gen_near<T>(c);
	const char* name = INF_N[v];
	c.cls(name); c.cls(FV_NAME[fc]); c.cls(AS_NAME[ac]);
	const std::string a = args<T>({fovy, asp, n});
	c.logf("%s%s", name, a.c_str());
	const Conv cv = v < 4 ? conv_of(v) : v == 5 ? Conv{true, CFG_ZO} : v == 6 ? Conv{false, CFG_ZO} : Conv{CFG_LH, CFG_ZO};
	const M4<T> G = call_inf<T>(v, fovy, asp, n);
	if (v >= 4) check_dispatch(c, name, "infinitePerspective", cv, G, call_inf<T>(explicit_of(cv), fovy, asp, n), a);
	const R top = (R)n * tanl((R)fovy / 2), right = top * (R)asp;
	R mt = check_infinite<T>(c, name, a, lift(G), right, top, n, cv, 6, true);
	if (mt > 1e-2L) c.cls("ill-conditioned (tolerance > 1e-2, counted trivial)");
	else if (asp != 1 && n != 1) c.nontrivial();
}
REG2(infinite_p, "infinitePerspective", 200000, 3000000,
     "one of infinitePerspective{RH,LH}_{NO,ZO}, infinitePerspective (and infinitePerspectiveLH/RH when they link) per case; fovy, aspect as for perspective, near = 1 / power of two / table / log-uniform 1e-3..1e4; "
     "near corners -> x,y = -1/+1, z = -1|0; side planes stay at x,y = -1/+1 at distances near*2^j (j = 1,3,10,24,40); depth follows z(d) = 1 - (1 - z_near) near/d, increases with d and reaches +1 at the "
     "point at infinity (0,0,-+1,0); clip w > 0; unsuffixed name bit-identical to the selected variant; non-trivial = aspect != 1, near != 1");

// tweakedInfinitePerspective (Lengyel, cited in the .inl): infinite projection pulled in by ep so that points at infinity stay strictly
// inside z < 1 on hardware without depth clamping. It has no suffixed variants and its documentation names no macro; the header says the
// matrices follow the OpenGL conventions, so its geometry is checked only in the default configuration (right-handed, -1..1), where both agree.
#if !defined(C08_EXPECT_LH) && !defined(C08_EXPECT_ZO)
template <class T> static void tweaked_p(pbt::Ctx& c) {
	const bool with_ep = c.coin();
	T fovy, asp;
	const int fc = gen_fov(c, fovy), ac = gen_aspect(c, asp);
	const T n = gen_near<T>(c);
	T ep = std::numeric_limits<T>::epsilon();
	const char* ecls = "ep:default (3-argument overload)";
	if (with_ep) switch (c.draw(3)) {
		case 0: ecls = "ep:epsilon<T>()"; break;
		case 1: { ecls = "ep:table (1e-3, 2.4e-7 ...)"; static const double TB[] = {1e-3, 2.4e-7, 1e-2, 1e-5, 0.0625}; ep = (T)TB[c.draw(5)]; if (ep < 16 * std::numeric_limits<T>::epsilon()) ep = 16 * std::numeric_limits<T>::epsilon(); break; }
		default: ecls = "ep:log-uniform (16 eps, 0.1)"; ep = (T)c.loguniform(16.0 * (double)std::numeric_limits<T>::epsilon(), 0.1); break;
	}
	const char* name = with_ep ? "tweakedInfinitePerspective_ep" : "tweakedInfinitePerspective";
	c.cls(name); c.cls(ecls); c.cls(FV_NAME[fc]); c.cls(AS_NAME[ac]);
	const std::string a = with_ep ? args<T>({fovy, asp, n, ep}) : args<T>({fovy, asp, n});
	c.logf("%s%s", name, a.c_str());
	const M4<T> G = with_ep ? glm::tweakedInfinitePerspective(fovy, asp, n, ep) : glm::tweakedInfinitePerspective(fovy, asp, n);
	const Mat M = lift(G);
	const R top = (R)n * tanl((R)fovy / 2), right = top * (R)asp;
	const Conv cv = {false, false};
	R mt = check_infinite<T>(c, name, a, M, right, top, n, cv, 6, false);
	// the limit (depth of the point at infinity): strictly below 1, so that nothing at infinity is clipped by hardware without depth clamping,
	// and within ep of 1 (3-argument overload: within 1e-5, its ep is not documented)
	R zinf, zb, winf; depth_at_infinity<T>(M, false, 6, zinf, zb, winf);
	if (winf > 0) {
		if (!(zinf < 1)) c.failk(std::string(name) + "/z-infinity-below-1", "%s%s: the point at infinity (0,0,-1,0) -> ndc z = %s, not below 1 (the tweak is lost)", name, a.c_str(), numR(zinf).c_str());
		const R lim = with_ep ? (R)ep : 1e-5L;
		if (!((1 - zinf) - 8 * zb <= lim * (1 + 1e-3L)))
			c.failk(std::string(name) + "/z-infinity-within-ep", "%s%s: the point at infinity (0,0,-1,0) -> ndc z = %s, further than %s from 1", name, a.c_str(), numR(zinf).c_str(), numR(lim).c_str());
	}
	if (mt > 1e-2L) c.cls("ill-conditioned (tolerance > 1e-2, counted trivial)");
	else if (asp != 1 && n != 1) c.nontrivial();
}
REG2(tweaked_p, "tweakedInfinitePerspective", 150000, 2000000,
     "3-argument and 4-argument overload (ep = epsilon<T>() / table / log-uniform 16 eps..0.1), fovy, aspect, near as for infinitePerspective; only in the default configuration (right-handed, -1..1: the function has no "
     "variants and names no macro); near corners -> x,y = -1/+1, z = -1, side planes stay at -1/+1, depth increases with distance, and ends strictly below 1 and within ep of 1 at the point at infinity; non-trivial = aspect != 1, near != 1");
#endif

// =============================================================================================
// project / unProject (NO, ZO and the dispatching names) with vec4 and ivec4 viewports
template <class T, class VPT> struct VpName;
template <class T> struct VpName<T, T> { static const char* n() { return "vec4"; } };
template <class T> struct VpName<T, int> { static const char* n() { return "ivec4"; } };
template <> struct VpName<int, int> { static const char* n() { return "ivec4"; } };

template <class T> static std::string v3s(const V3<T>& v) { return "(" + num(v.x) + "," + num(v.y) + "," + num(v.z) + ")"; }
static std::string r3s(const R* v) { return "(" + numR(v[0]) + "," + numR(v[1]) + "," + numR(v[2]) + ")"; }

template <class T, class VPT> static void project_case(pbt::Ctx& c) {
	typedef glm::vec<4, VPT, glm::defaultp> VP;
	const bool zo = c.coin(), lh = c.coin();
	const Conv cv = {lh, zo};
	const char* vpn = VpName<T, VPT>::n();
	const std::string PN = zo ? "projectZO" : "projectNO", UN = zo ? "unProjectZO" : "unProjectNO";
	// ---- projection matrix (an input here; the builders have their own targets)
	const int kind = (int)c.draw(5);  // 0 identity (clip cube = object space), 1 ortho, 2 frustum, 3,4 perspective
	T l = -1, r = 1, b = -1, t = 1, n = 1, f = 2, fovy = 1, asp = 1;
	M4<T> P(T(1));
	int kel = 2;
	std::string pdesc = "identity";
	static const char* const KN[] = {"proj:identity (clip cube)", "proj:ortho", "proj:frustum", "proj:perspective", "proj:perspective"};
	c.cls(KN[kind]);
	if (kind == 1 || kind == 2) {
		gen_interval(c, l, r); gen_interval(c, b, t); gen_depth(c, n, f);
		P = kind == 1 ? call_ortho<T>(explicit_of(cv), l, r, b, t, n, f) : call_frustum<T>(explicit_of(cv), l, r, b, t, n, f);
		kel = 4; pdesc = std::string(kind == 1 ? "ortho" : "frustum") + conv_name(cv) + args<T>({l, r, b, t, n, f});
	} else if (kind >= 3) {
		gen_fov(c, fovy); gen_aspect(c, asp); gen_depth(c, n, f);
		P = call_perspective<T>(explicit_of(cv), fovy, asp, n, f);
		kel = 6; pdesc = std::string("perspective") + conv_name(cv) + args<T>({fovy, asp, n, f});
	}
	const Mat Pm = lift(P);
	// ---- model matrix and viewport
	Mat Mm; const int mc = gen_model(c, Mm); round_to<T>(Mm);
	const M4<T> Mg = lower<T>(Mm);
	c.cls(MD_NAME[mc]);
	double vpd[4]; const int vc = gen_viewport(c, std::is_same<VPT, int>::value, vpd);
	c.cls(VP_NAME[vc]); c.cls(std::is_same<VPT, int>::value ? "viewport type ivec4" : "viewport type vec4");
	VP vp((VPT)vpd[0], (VPT)vpd[1], (VPT)vpd[2], (VPT)vpd[3]);
	const R vpr[4] = {(R)vp[0], (R)vp[1], (R)vp[2], (R)vp[3]};
	// ---- point of the view volume, in eye space (long double), then in object space (rounded to T)
	bool ex[3];
	const double fx = gen_frac(c, &ex[0]), fy = gen_frac(c, &ex[1]), fz = gen_frac(c, &ex[2]);
	R eye[3];
	if (kind == 0) { eye[0] = -1 + 2 * (R)fx; eye[1] = -1 + 2 * (R)fy; eye[2] = zo ? (R)fz : -1 + 2 * (R)fz; }
	else {
		R right = r, left = l, top = t, bottom = b;
		if (kind >= 3) { top = (R)n * tanl((R)fovy / 2); right = top * (R)asp; left = -right; bottom = -top; }
		R d = kind == 1 ? (R)n + (R)fz * ((R)f - (R)n) : (ex[2] ? (fz == 0 ? (R)n : (R)f) : (R)n * powl((R)f / (R)n, (R)fz));
		R s = kind == 1 ? 1 : d / (R)n;
		eye[0] = (left + (R)fx * (right - left)) * s; eye[1] = (bottom + (R)fy * (top - bottom)) * s; eye[2] = lh ? d : -d;
	}
	const bool corner = ex[0] && ex[1] && ex[2];
	c.cls(corner ? "point:volume corner" : (ex[0] || ex[1] || ex[2]) ? "point:on a face/edge" : "point:interior");
	Mat Mi;
	if (!inverse(Mm, Mi)) { c.skip(); return; }
	R e4[4] = {eye[0], eye[1], eye[2], 1}, o4[4];
	apply(Mi, e4, o4);
	const V3<T> obj((T)o4[0], (T)o4[1], (T)o4[2]);
	if (!fp::is_finite(obj.x) || !fp::is_finite(obj.y) || !fp::is_finite(obj.z)) { c.skip(); return; }
	const R objr[3] = {(R)obj.x, (R)obj.y, (R)obj.z};
	if (c.verbose) c.logf("%s/%s obj=%s model=%s proj=%s viewport=(%s,%s,%s,%s) %s", PN.c_str(), UN.c_str(), v3s(obj).c_str(), MD_NAME[mc], pdesc.c_str(), numR(vpr[0]).c_str(), numR(vpr[1]).c_str(), numR(vpr[2]).c_str(),
	                      numR(vpr[3]).c_str(), vpn);
	auto ctx = [&]() { return "obj=" + v3s(obj) + " model=" + MD_NAME[mc] + " proj=" + pdesc + " viewport=(" + numR(vpr[0]) + "," + numR(vpr[1]) + "," + numR(vpr[2]) + "," + numR(vpr[3]) + ")"; };
	static const char* const WK[3] = {"/window-x", "/window-y", "/depth"};
	static const char* const OK3[3] = {"/x", "/y", "/z"};

	// ---- (a) project against the gluProject definition
	const V3<T> W = zo ? glm::projectZO(obj, Mg, P, vp) : glm::projectNO(obj, Mg, P, vp);
	{
		const V3<T> D = glm::project(obj, Mg, P, vp), S = CFG_ZO ? glm::projectZO(obj, Mg, P, vp) : glm::projectNO(obj, Mg, P, vp);
		if (!fp::same_bits(D.x, S.x) || !fp::same_bits(D.y, S.y) || !fp::same_bits(D.z, S.z))
			c.failk(std::string("project/") + vpn + "/dispatch", "project(%s) = %s differs from %s = %s selected in configuration " C08_CFG, ctx().c_str(), v3s(D).c_str(), CFG_ZO ? "projectZO" : "projectNO", v3s(S).c_str());
	}
	ProjRef pr; project_ref<T>(Mm, Pm, objr, vpr, zo, pr);
	if (!pr.ok) { c.cls("skipped: clip w not resolved"); c.skip(); return; }
	const R Wr[3] = {(R)W.x, (R)W.y, (R)W.z};
	R ptol[3];
	for (int i = 0; i < 3; ++i) {
		ptol[i] = 8 * pr.err[i] + TINY<T>();
		if (!within(c, "project vs definition err/tol", rabs(Wr[i] - pr.win[i]), ptol[i]))
			c.failk(PN + "/" + vpn + WK[i], "%s(%s) = %s, gluProject definition gives %s (component %d, tolerance %.3Lg)", PN.c_str(), ctx().c_str(), v3s(W).c_str(), r3s(pr.win).c_str(), i, ptol[i]);
	}
	// ---- (b) a corner of the view volume lands on a corner of the viewport rectangle with depth 0 / 1 (identity model: the corner is exact up to its rounding to T)
	if (corner && mc == MD_IDENTITY) {
		c.cls("volume corner -> viewport corner checked");
		Corner o; through<T>(Pm, eye, kel + 2, o);
		const R want[3] = {vpr[0] + (R)fx * vpr[2], vpr[1] + (R)fy * vpr[3], (R)fz};
		const R sc[3] = {0.5L * rabs(vpr[2]), 0.5L * rabs(vpr[3]), zo ? 1.0L : 0.5L};
		for (int i = 0; i < 3; ++i)
			if (!within(c, "volume corner -> viewport corner err/tol", rabs(Wr[i] - want[i]), ptol[i] + sc[i] * 8 * o.bound[i]))
				c.failk(PN + "/" + vpn + "/volume-corner-to-viewport-corner" + WK[i], "%s(%s) = %s, expected the viewport corner %s (depth %s)", PN.c_str(), ctx().c_str(), v3s(W).c_str(), r3s(want).c_str(), fz == 0 ? "0 = near" : "1 = far");
	}
	// ---- (c,d) unProject(project(p)): against the exact solve, and against p with project's bound propagated through d obj / d win
	bool illc = false;
	{
		const V3<T> X = zo ? glm::unProjectZO(W, Mg, P, vp) : glm::unProjectNO(W, Mg, P, vp);
		const V3<T> D = glm::unProject(W, Mg, P, vp), S = CFG_ZO ? glm::unProjectZO(W, Mg, P, vp) : glm::unProjectNO(W, Mg, P, vp);
		if (!fp::same_bits(D.x, S.x) || !fp::same_bits(D.y, S.y) || !fp::same_bits(D.z, S.z))
			c.failk(std::string("unProject/") + vpn + "/dispatch", "unProject(win=%s, %s) = %s differs from %s = %s selected in configuration " C08_CFG, v3s(W).c_str(), ctx().c_str(), v3s(D).c_str(), CFG_ZO ? "unProjectZO" : "unProjectNO", v3s(S).c_str());
		UnprojRef ur; unproject_ref<T>(Mm, Pm, Wr, vpr, zo, ur);
		if (!ur.ok) c.cls("round trip: unProject not resolved (w ~ 0), counted");
		else {
			const R Xr[3] = {(R)X.x, (R)X.y, (R)X.z};
			R scale = 1; for (int i = 0; i < 3; ++i) scale = rmax(scale, rabs(objr[i]));
			for (int i = 0; i < 3; ++i) {
				R ut = 8 * ur.err[i] + TINY<T>();
				R rt = ut; for (int j = 0; j < 3; ++j) rt += rabs(ur.J[i][j]) * ptol[j];
				if (rt > 1e-2L * scale) illc = true;
				if (!within(c, "unProject vs exact solve err/tol", rabs(Xr[i] - ur.obj[i]), ut))
					c.failk(UN + "/" + vpn + "/exact-solve" + OK3[i], "%s(win=%s, %s) = %s, solving (proj*model) x = ndc exactly gives %s (tolerance %.3Lg)", UN.c_str(), v3s(W).c_str(), ctx().c_str(), v3s(X).c_str(), r3s(ur.obj).c_str(), ut);
				if (!within(c, "unProject(project(p)) err/tol", rabs(Xr[i] - objr[i]), rt))
					c.failk(UN + "/" + vpn + "/inverse-of-project" + OK3[i], "%s(%s(p)) = %s for p: %s, window point %s (tolerance %.3Lg)", UN.c_str(), PN.c_str(), v3s(X).c_str(), ctx().c_str(), v3s(W).c_str(), rt);
			}
		}
	}
	// ---- (c,e) a fresh window point: unProject against the exact solve, then project(unProject(w)) against w
	{
		bool e2[3];
		const double gx = gen_frac(c, &e2[0]), gy = gen_frac(c, &e2[1]), gz = gen_frac(c, &e2[2]);
		const V3<T> Wf((T)(vpr[0] + (R)gx * vpr[2]), (T)(vpr[1] + (R)gy * vpr[3]), (T)gz);
		const R Wfr[3] = {(R)Wf.x, (R)Wf.y, (R)Wf.z};
		c.cls((e2[0] && e2[1] && e2[2]) ? "window point:viewport corner, depth 0/1" : "window point:inside");
		UnprojRef ur; unproject_ref<T>(Mm, Pm, Wfr, vpr, zo, ur);
		if (!ur.ok) c.cls("window point: unProject not resolved (w ~ 0), counted");
		else {
			const V3<T> X = zo ? glm::unProjectZO(Wf, Mg, P, vp) : glm::unProjectNO(Wf, Mg, P, vp);
			const R Xr[3] = {(R)X.x, (R)X.y, (R)X.z};
			R utol[3]; bool good = true;
			R scale = 1; for (int i = 0; i < 3; ++i) scale = rmax(scale, rabs(ur.obj[i]));
			for (int i = 0; i < 3; ++i) {
				utol[i] = 8 * ur.err[i] + TINY<T>();
				if (utol[i] > 1e-2L * scale) illc = true;
				if (!within(c, "unProject vs exact solve err/tol", rabs(Xr[i] - ur.obj[i]), utol[i])) {
					good = false;
					c.failk(UN + "/" + vpn + "/exact-solve" + OK3[i], "%s(win=%s, %s) = %s, solving (proj*model) x = ndc exactly gives %s (tolerance %.3Lg)", UN.c_str(), v3s(Wf).c_str(), ctx().c_str(), v3s(X).c_str(), r3s(ur.obj).c_str(), utol[i]);
				}
			}
			if (good && fp::is_finite(X.x) && fp::is_finite(X.y) && fp::is_finite(X.z)) {
				const V3<T> W2 = zo ? glm::projectZO(X, Mg, P, vp) : glm::projectNO(X, Mg, P, vp);
				ProjRef p2; project_ref<T>(Mm, Pm, Xr, vpr, zo, p2);
				if (p2.ok) {
					const R W2r[3] = {(R)W2.x, (R)W2.y, (R)W2.z};
					for (int i = 0; i < 3; ++i) {
						R rt = 8 * p2.err[i] + TINY<T>(); for (int j = 0; j < 3; ++j) rt += rabs(p2.J[i][j]) * utol[j];
						if (!within(c, "project(unProject(w)) err/tol", rabs(W2r[i] - Wfr[i]), rt))
							c.failk(PN + "/" + vpn + "/inverse-of-unProject" + WK[i], "%s(%s(w)) = %s for w = %s, %s, object point %s (tolerance %.3Lg)", PN.c_str(), UN.c_str(), v3s(W2).c_str(), v3s(Wf).c_str(), ctx().c_str(), v3s(X).c_str(), rt);
					}
				}
			}
		}
	}
	if (illc) c.cls("ill-conditioned unProject (tolerance > 1e-2 |p|, counted trivial)");
	else if (kind != 0 && (vpr[0] != 0 || vpr[1] != 0) && vpr[2] != vpr[3]) c.nontrivial();
}
template <class T> static void project_p(pbt::Ctx& c) { if (c.coin()) project_case<T, int>(c); else project_case<T, T>(c); }
REG2(project_p, "project_unProject", 80000, 1500000,
     "projectNO/ZO, unProjectNO/ZO and the dispatching project/unProject with ivec4 and vec4 viewports (origin 0 / non-zero / fractional, sizes 1..4096); projection = identity (object space is the clip cube) or "
     "ortho/frustum/perspective of either handedness in the depth convention of the function under test; model = identity / translation / axis rotation / random rigid / rigid x 2^k; object point = corner / face / interior "
     "of the view volume; project against the gluProject definition in long double with its forward bound, volume corners -> viewport corners with depth 0/1, unProject against an exact Gauss-Jordan solve, round trips both "
     "ways with the bound of the first step pushed through the Jacobian of the second; non-trivial = projection not the identity, viewport origin non-zero and width != height, unProject tolerance <= 1e-2 |p|");

// =============================================================================================
// pickMatrix (gluPickMatrix): the pick region center +- delta/2 in window coordinates becomes the whole clip square; z and w untouched
template <class T, class VPT> static void pick_case(pbt::Ctx& c) {
	typedef glm::vec<4, VPT, glm::defaultp> VP;
	const char* vpn = VpName<T, VPT>::n();
	double vpd[4]; const int vc = gen_viewport(c, std::is_same<VPT, int>::value, vpd);
	c.cls(VP_NAME[vc]); c.cls(std::is_same<VPT, int>::value ? "viewport type ivec4" : "viewport type vec4");
	VP vp((VPT)vpd[0], (VPT)vpd[1], (VPT)vpd[2], (VPT)vpd[3]);
	const R vpr[4] = {(R)vp[0], (R)vp[1], (R)vp[2], (R)vp[3]};
	T ce[2], de[2];
	const char* ccls = "center:viewport centre";
	const int ck = (int)c.draw(4);
	for (int i = 0; i < 2; ++i) {
		if (ck == 0) ce[i] = (T)(vpr[i] + vpr[2 + i] / 2);
		else if (ck == 1) { ce[i] = (T)(vpr[i] + (R)c.range(0, (int64_t)vpr[2 + i])); ccls = "center:integer pixel"; }
		else { ce[i] = (T)(vpr[i] + (R)c.uniform(-0.2, 1.2) * vpr[2 + i]); ccls = "center:anywhere (-0.2..1.2 of the viewport)"; }
		switch (c.draw(4)) {
		case 0: de[i] = (T)c.range(1, 16); break;
		case 1: de[i] = (T)vpr[2 + i]; break;
		default: de[i] = (T)c.loguniform(0.05, 2.0 * (double)vpr[2 + i] + 1.0); break;
		}
		if (!(de[i] > 0)) de[i] = 1;
	}
	c.cls(ccls);
	const std::string a = "(center=(" + num(ce[0]) + "," + num(ce[1]) + "), delta=(" + num(de[0]) + "," + num(de[1]) + "), viewport=(" + numR(vpr[0]) + "," + numR(vpr[1]) + "," + numR(vpr[2]) + "," + numR(vpr[3]) + ") " + vpn + ")";
	c.logf("pickMatrix%s", a.c_str());
	const M4<T> G = glm::pickMatrix(glm::vec<2, T, glm::defaultp>(ce[0], ce[1]), glm::vec<2, T, glm::defaultp>(de[0], de[1]), vp);
	const Mat M = lift(G);
	// only x and y are scaled and translated
	for (int cc = 0; cc < 4; ++cc) for (int i = 0; i < 4; ++i) {
		if ((cc == 0 && i == 0) || (cc == 1 && i == 1) || (cc == 3 && i < 2)) continue;
		R want = cc == i ? 1 : 0;
		if (M.m[cc][i] != want) c.failk(std::string("pickMatrix/") + vpn + "/only-x-y-affected", "pickMatrix%s[%d][%d] = %s, expected %.0Lf (z and w pass through, no shear)", a.c_str(), cc, i, numR(M.m[cc][i]).c_str(), want);
	}
	const R u = U<T>();
	const R z = (R)c.uniform(-1.0, 1.0);
	for (int ci = 0; ci < 4; ++ci) {
		const int s[2] = {(ci & 1) ? 1 : -1, (ci >> 1) ? 1 : -1};
		R nd[4] = {0, 0, z, 1};
		for (int i = 0; i < 2; ++i) nd[i] = 2 * ((R)ce[i] + s[i] * (R)de[i] / 2 - vpr[i]) / vpr[2 + i] - 1;  // ndc of the pick-region corner under this viewport
		R out[4]; apply(M, nd, out);
		for (int i = 0; i < 2; ++i) {
			// scale vw/dx: 1 rounding; translation (vw - 2(cx - vx))/dx: the difference cx - vx is rounded, then the outer difference (cancels when the centre is mid-viewport), then the quotient
			R off = rabs((R)ce[i] - vpr[i]);
			R tol = 8 * u * (2 * rabs(M.m[i][i] * nd[i]) + 3 * (rabs(vpr[2 + i]) + 2 * off) / (R)de[i] + 1) + TINY<T>();
			if (!within(c, "pick corner err/tol", rabs(out[i] - s[i]), tol))
				c.failk(std::string("pickMatrix/") + vpn + (i ? "/y" : "/x"), "pickMatrix%s: corner (%+d,%+d) of the pick region (ndc %s,%s) -> %c = %s, expected %+d", a.c_str(), s[0], s[1], numR(nd[0]).c_str(), numR(nd[1]).c_str(), "xy"[i],
				        numR(out[i]).c_str(), s[i]);
		}
		if (out[2] != z || out[3] != 1) c.failk(std::string("pickMatrix/") + vpn + "/z-w-untouched", "pickMatrix%s maps (.., z=%s, w=1) to z=%s, w=%s", a.c_str(), numR(z).c_str(), numR(out[2]).c_str(), numR(out[3]).c_str());
	}
	const bool offc = ((R)ce[0] - vpr[0]) * 2 != vpr[2] && ((R)ce[1] - vpr[1]) * 2 != vpr[3];
	if (offc && de[0] != de[1] && (R)de[0] != vpr[2] && (R)de[1] != vpr[3]) c.nontrivial();
}
template <class T> static void pick_p(pbt::Ctx& c) { if (c.coin()) pick_case<T, int>(c); else pick_case<T, T>(c); }
REG2(pick_p, "pickMatrix", 200000, 3000000,
     "center at the viewport centre / an integer pixel / anywhere from -0.2 to 1.2 of the viewport, delta > 0 small integers / the viewport size / log-uniform, ivec4 and vec4 viewports with zero, non-zero and fractional "
     "origin; the four corners center +- delta/2, expressed in ndc of that viewport, must map to (+-1,+-1) and z, w must pass through unchanged (all other elements exactly those of the identity); "
     "non-trivial = centre off the viewport centre in x and y, delta.x != delta.y, delta != viewport size");

// =============================================================================================
// declared and documented in matrix_clip_space.hpp => must be usable: the link pre-pass (lib/specs/C08.py) builds a program calling each.
// The result does not depend on the clip-control macros, so the target is registered in the default configuration only.
#if !defined(C08_EXPECT_LH) && !defined(C08_EXPECT_ZO)
static void declared_p(pbt::Ctx& c) {
	const int i = (int)c.draw(2);
	c.nontrivial();
	static const char* const N[2] = {"infinitePerspectiveLH", "infinitePerspectiveRH"};
	static const int H[2] = {HAVE_infinitePerspectiveLH, HAVE_infinitePerspectiveRH};
	static const char* const E[2] = {HAVE_ERR_infinitePerspectiveLH, HAVE_ERR_infinitePerspectiveRH};
	c.logf("link a program that calls glm::%s<float> and <double>", N[i]);
	c.cls(H[i] ? "links" : "does not link");
	if (!H[i]) c.failk(std::string(N[i]) + "/declared-but-not-defined", "glm::%s(fovy, aspect, near) is declared and documented in glm/ext/matrix_clip_space.hpp but a program calling it does not link: %s", N[i], E[i]);
}
PBT_SWEEP("declared_functions_link/" C08_CFG, declared_p, 2, 1, 1,
          "the two half-suffixed names infinitePerspectiveLH / infinitePerspectiveRH that matrix_clip_space.hpp declares without a definition in the same header: a two-line program calling each with float and double "
          "is compiled and linked by the pre-pass; complete enumeration (when they link they are exercised by the infinitePerspective targets)");
#endif

int main(int argc, char** argv) { return pbt::pbt_main(argc, argv, "C08"); }
