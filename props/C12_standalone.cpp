// C12, include-order and qualifier variant: <glm/geometric.hpp> is the FIRST and only GLM header of this translation unit (nothing has
// pulled in common.hpp, exponential.hpp ... before it), and the core geometric functions are called on the scalar (genType) overloads
// and on vec2-4 of float/double with the highp, mediump and lowp qualifiers. Oracle: the documented formulas in long double.
// Tolerances: 8 ulps of the largest intermediate magnitude for highp/mediump; lowp may use approximations with relative error 2^-11
// (statement of C03), so lowp results are held to 2^-11 + 8 ulps.
#include <glm/geometric.hpp>
#include "pbt.hpp"
#include "fp.hpp"
#include <cmath>
#include <string>

typedef long double R;
template <class T> static R eps_() { return (R)std::numeric_limits<T>::epsilon(); }
template <glm::qualifier Q> static const char* qn() { return Q == glm::packed_highp ? "highp" : Q == glm::packed_mediump ? "mediump" : "lowp"; }
template <class T> static const char* tn() { return sizeof(T) == 4 ? "float" : "double"; }
template <class T, glm::qualifier Q> static R tolrel() { return (Q == glm::packed_lowp ? ldexpl(1.0L, -11) : 0.0L) + 8 * eps_<T>(); }

template <class T> static T gen_comp(pbt::Ctx& c) {
	switch (c.draw(4)) {
	case 0: return (T)((double)c.range(-9, 9) * 0.25 + 0.125);            // non-integers with few bits
	case 1: return (T)c.uniform(-4.0, 4.0);
	case 2: return (T)std::ldexp(c.uniform(-1.0, 1.0), (int)c.range(-12, 12));
	default: return (T)(c.coin() ? 2.75 : -0.6);
	}
}

template <class T> static void prop_scalar(pbt::Ctx& c) {
	T x = gen_comp<T>(c), y = gen_comp<T>(c), eta = (T)c.uniform(0.2, 1.5);
	if (x == 0) x = T(2.75);
	if (y == 0) y = T(-0.6);
	c.logf("scalar %s x=%a y=%a eta=%a", tn<T>(), (double)x, (double)y, (double)eta);
	if (x != std::floor(x)) c.nontrivial(); else c.cls("integer-valued x");
	const R tol = 8 * eps_<T>();
	auto near = [&](T got, R want, R scale) { R d = (R)got - want; if (d < 0) d = -d; return d <= tol * (scale > 1e-300L ? scale : 1e-300L) + (R)std::numeric_limits<T>::denorm_min(); };
	R ax = fabsl((R)x), ay = fabsl((R)y);
	if (!near(glm::length(x), ax, ax)) c.failk(std::string("length/scalar/") + tn<T>(), "length(%a) = %a, |x| = %Lg", (double)x, (double)glm::length(x), ax);
	if (!near(glm::distance(x, y), fabsl((R)y - (R)x), ax + ay)) c.failk(std::string("distance/scalar/") + tn<T>(), "distance(%a, %a) = %a", (double)x, (double)y, (double)glm::distance(x, y));
	if (!near(glm::dot(x, y), (R)x * (R)y, ax * ay)) c.failk(std::string("dot/scalar/") + tn<T>(), "dot(%a, %a) = %a", (double)x, (double)y, (double)glm::dot(x, y));
	// (normalize has no scalar overload)
	{ T n = x < 0 ? T(-1) : T(1); R want = (R)y - 2 * ((R)n * (R)y) * (R)n; if (!near(glm::reflect(y, n), want, 3 * ay)) c.failk(std::string("reflect/scalar/") + tn<T>(), "reflect(%a, %a) = %a", (double)y, (double)n, (double)glm::reflect(y, n)); }
	{ R d = (R)x * (R)y; T ff = glm::faceforward(x, y, x); R want = d * 1 < 0 ? (R)x : -(R)x; (void)want; R dd = (R)x * (R)y; T exp = (dd < 0) ? x : -x; if (dd != 0 && !fp::same_value(ff, exp)) c.failk(std::string("faceforward/scalar/") + tn<T>(), "faceforward(%a, %a, %a) = %a", (double)x, (double)y, (double)x, (double)ff); (void)d; }
}

template <int L, class T, glm::qualifier Q> static void prop_vec(pbt::Ctx& c) {
	typedef glm::vec<L, T, Q> V;
	V a, b; R na2 = 0, nb2 = 0, dab = 0, sab = 0, dd2 = 0;
	for (int i = 0; i < L; ++i) { a[i] = gen_comp<T>(c); b[i] = gen_comp<T>(c); }
	if (a[0] == 0) a[0] = T(0.5);
	if (b[0] == 0) b[0] = T(-1.5);
	for (int i = 0; i < L; ++i) { na2 += (R)a[i] * (R)a[i]; nb2 += (R)b[i] * (R)b[i]; dab += (R)a[i] * (R)b[i]; sab += fabsl((R)a[i] * (R)b[i]); dd2 += ((R)a[i] - (R)b[i]) * ((R)a[i] - (R)b[i]); }
	c.logf("vec<%d,%s,%s>", L, tn<T>(), qn<Q>());
	c.nontrivial();
	const std::string tq = std::string("vec") + std::to_string(L) + "/" + tn<T>() + "/" + qn<Q>();
	const R tr = tolrel<T, Q>(), tiny = (R)std::numeric_limits<T>::min();
	R na = sqrtl(na2);
	{ R e = fabsl((R)glm::length(a) - na); if (!(e <= tr * na + tiny)) c.failk("length/" + tq, "length = %a, expected %Lg (err %Lg)", (double)glm::length(a), na, e); }
	{ R w = sqrtl(dd2), e = fabsl((R)glm::distance(a, b) - w); if (!(e <= tr * (na + sqrtl(nb2)) + tiny)) c.failk("distance/" + tq, "distance = %a, expected %Lg", (double)glm::distance(a, b), w); }
	{ R e = fabsl((R)glm::dot(a, b) - dab); if (!(e <= 8 * eps_<T>() * sab + tiny)) c.failk("dot/" + tq, "dot = %a, expected %Lg", (double)glm::dot(a, b), dab); }
	{
		V n = glm::normalize(a); R ln = 0, worst = 0;
		for (int i = 0; i < L; ++i) { ln += (R)n[i] * (R)n[i]; R e = fabsl((R)n[i] - (R)a[i] / na); if (e > worst) worst = e; }
		if (!(fabsl(sqrtl(ln) - 1) <= 2 * tr) || !(worst <= 2 * tr)) c.failk("normalize/" + tq, "normalize: |n| = %.12Lg, worst component error %Lg (bound %Lg)", sqrtl(ln), worst, 2 * tr);
	}
}

#define REGV(L, T, Q, NAME) static void pv_##NAME(pbt::Ctx& c) { prop_vec<L, T, glm::Q>(c); } PBT_RANDOM("standalone/" #NAME, pv_##NAME, 60000, 3000000, "vec of length L, non-integer components (quarter steps, uniform, 2^-12..2^12), <glm/geometric.hpp> included alone: length, distance, dot, normalize against long double; lowp held to 2^-11; every case non-trivial")
REGV(2, float, packed_highp, vec2_float_highp); REGV(3, float, packed_highp, vec3_float_highp); REGV(4, float, packed_highp, vec4_float_highp);
REGV(2, float, packed_mediump, vec2_float_mediump); REGV(3, float, packed_mediump, vec3_float_mediump); REGV(4, float, packed_mediump, vec4_float_mediump);
REGV(2, float, packed_lowp, vec2_float_lowp); REGV(3, float, packed_lowp, vec3_float_lowp); REGV(4, float, packed_lowp, vec4_float_lowp);
REGV(1, float, packed_lowp, vec1_float_lowp); REGV(1, float, packed_highp, vec1_float_highp);
REGV(2, double, packed_highp, vec2_double_highp); REGV(3, double, packed_mediump, vec3_double_mediump); REGV(4, double, packed_lowp, vec4_double_lowp);
static void ps_f(pbt::Ctx& c) { prop_scalar<float>(c); }
static void ps_d(pbt::Ctx& c) { prop_scalar<double>(c); }
PBT_RANDOM("standalone/scalar/float", ps_f, 100000, 5000000, "scalar genType overloads of length, distance, dot, reflect, faceforward with non-integer arguments, <glm/geometric.hpp> included alone; non-trivial = x not integer-valued");
PBT_RANDOM("standalone/scalar/double", ps_d, 100000, 5000000, "as standalone/scalar/float");

int main(int argc, char** argv) { return pbt::pbt_main(argc, argv, "C12"); }
