// C01 (ext twins), part 2 of 2: floating-point fmin/fmax/fclamp, wrap modes, iround/uround, epsilon and ULP comparisons, fcompMin/fcompMax, compNormalize/compScale; see C01_ext.cpp.
#define C01_EXT_PART 2
#include "C01_ext.cpp"
