// C06 (2/3) — the packUnorm<>/packSnorm<> templates, the integer packers (packInt/packUint 2x8..2x32, packI3x10_1x2,
// packU3x10_1x2) and packDouble2x32/unpackDouble2x32. Oracle: engine/ref/refpack.hpp (same equations as part 1; integer
// formats: the word is the concatenation of the two's-complement fields, first component in the least-significant bits).
// For the templates the "word" is the concatenation of the components of the returned integer vector (component i <-> field i).
#include "ref/refpack.hpp"
#include <glm/glm.hpp>
#include <glm/packing.hpp>
#include <glm/gtc/packing.hpp>

using refpack::Field; using refpack::UNORM; using refpack::SNORM; using refpack::UINT; using refpack::SINT;

// ---- packUnorm<UT>(vec<L,FT>) / unpackUnorm<FT>(vec<L,UT>) and the Snorm pair as L-field formats of sizeof(UT)*8 bits each
template <class IT, class FT, int L, refpack::Kind K> struct TmplFmt {
	typedef FT T;
	typedef typename std::make_unsigned<IT>::type UT;
	static constexpr int NF = L;
	static constexpr int B = sizeof(IT) * 8;
	static constexpr Field fields[4] = {{B, K}, {B, K}, {B, K}, {B, K}};
	static uint64_t pack(const FT* v) {
		glm::vec<L, FT> x; for (int i = 0; i < L; ++i) x[i] = v[i];
		glm::vec<L, IT> r;
		if constexpr (K == UNORM) r = glm::packUnorm<IT>(x); else r = glm::packSnorm<IT>(x);
		uint64_t w = 0; for (int i = 0; i < L; ++i) w |= (uint64_t)(UT)r[i] << (B * i);
		return w;
	}
	static void unpack(uint64_t w, FT* o) {
		glm::vec<L, IT> p; for (int i = 0; i < L; ++i) p[i] = (IT)(UT)(w >> (B * i));
		glm::vec<L, FT> r;
		if constexpr (K == UNORM) r = glm::unpackUnorm<FT>(p); else r = glm::unpackSnorm<FT>(p);
		for (int i = 0; i < L; ++i) o[i] = r[i];
	}
};
#define TMPL(NAME, IT, FT, L, K, LABEL) struct NAME : TmplFmt<IT, FT, L, K> { static const char* name() { return LABEL; } };
TMPL(TU8f4, glm::uint8, float, 4, UNORM, "packUnorm<uint8>(vec4)")
TMPL(TU16f2, glm::uint16, float, 2, UNORM, "packUnorm<uint16>(vec2)")
TMPL(TU16f4, glm::uint16, float, 4, UNORM, "packUnorm<uint16>(vec4)")
TMPL(TU8d3, glm::uint8, double, 3, UNORM, "packUnorm<uint8>(dvec3)")
TMPL(TU16d1, glm::uint16, double, 1, UNORM, "packUnorm<uint16>(dvec1)")
TMPL(TU32d1, glm::uint32, double, 1, UNORM, "packUnorm<uint32>(dvec1)")
TMPL(TU32d2, glm::uint32, double, 2, UNORM, "packUnorm<uint32>(dvec2)")
TMPL(TS8f4, glm::int8, float, 4, SNORM, "packSnorm<int8>(vec4)")
TMPL(TS16f2, glm::int16, float, 2, SNORM, "packSnorm<int16>(vec2)")
TMPL(TS16f3, glm::int16, float, 3, SNORM, "packSnorm<int16>(vec3)")
TMPL(TS8d2, glm::int8, double, 2, SNORM, "packSnorm<int8>(dvec2)")
TMPL(TS16d4, glm::int16, double, 4, SNORM, "packSnorm<int16>(dvec4)")
TMPL(TS32d1, glm::int32, double, 1, SNORM, "packSnorm<int32>(dvec1)")
TMPL(TS32d2, glm::int32, double, 2, SNORM, "packSnorm<int32>(dvec2)")

#define RULE_WORDS "packed components -> unpack -> compare with k/M (snorm: clamp(k/M,-1,1)), re-pack, unpack again; non-trivial = some component not in {0, max}"
#define RULE_FIELDS "every code of every component (<=16 bit), the others all-zero / all-one / random; non-trivial = some component not in {0, max}"
#define RULE_PACK "per component: code preimage k/M (+-3 ulp), midpoint (k+1/2)/M +-3 ulp, range ends / beyond / +-0 / subnormal / +-inf, uniform in [lo-1/4, 5/4]; result against round(clamp(x)*M) (either neighbour within 4 ulp of a midpoint), unpack within half a step, one component raised (monotone, others unchanged); non-trivial = results pairwise distinct and one not in {0, +-max}"

#define T_WORDS_SWEEP(F, TAG, QS, TS) static void w_##F(pbt::Ctx& c) { packcheck::prop_norm_words<F>(c); } PBT_SWEEP(TAG "/words", w_##F, 1ULL << packcheck::total_bits<F>(), QS, TS, RULE_WORDS);
#define T_WORDS_RANDOM(F, TAG) static void w_##F(pbt::Ctx& c) { packcheck::prop_norm_words<F>(c); } PBT_RANDOM(TAG "/words", w_##F, 1000000, 30000000, "every component drawn from {0, 1, max, max-1, most negative and neighbours, random}; " RULE_WORDS);
#define T_FIELDS(F, TAG) static void f_##F(pbt::Ctx& c) { packcheck::prop_norm_fields<F>(c); } PBT_SWEEP(TAG "/fields", f_##F, packcheck::fields_domain<F>(), 1, 1, RULE_FIELDS);
#define T_PACK(F, TAG) static void p_##F(pbt::Ctx& c) { packcheck::prop_norm_pack<F>(c); } PBT_RANDOM(TAG "/pack", p_##F, 400000, 20000000, RULE_PACK);

T_WORDS_SWEEP(TU8f4, "packUnorm<uint8,float,4>", 256, 4) T_FIELDS(TU8f4, "packUnorm<uint8,float,4>") T_PACK(TU8f4, "packUnorm<uint8,float,4>")
T_WORDS_SWEEP(TU16f2, "packUnorm<uint16,float,2>", 256, 4) T_FIELDS(TU16f2, "packUnorm<uint16,float,2>") T_PACK(TU16f2, "packUnorm<uint16,float,2>")
T_WORDS_RANDOM(TU16f4, "packUnorm<uint16,float,4>") T_FIELDS(TU16f4, "packUnorm<uint16,float,4>") T_PACK(TU16f4, "packUnorm<uint16,float,4>")
T_WORDS_SWEEP(TU8d3, "packUnorm<uint8,double,3>", 1, 1) T_PACK(TU8d3, "packUnorm<uint8,double,3>")
T_WORDS_SWEEP(TU16d1, "packUnorm<uint16,double,1>", 1, 1) T_PACK(TU16d1, "packUnorm<uint16,double,1>")
T_WORDS_SWEEP(TU32d1, "packUnorm<uint32,double,1>", 256, 1) T_PACK(TU32d1, "packUnorm<uint32,double,1>")
T_WORDS_RANDOM(TU32d2, "packUnorm<uint32,double,2>") T_PACK(TU32d2, "packUnorm<uint32,double,2>")
T_WORDS_SWEEP(TS8f4, "packSnorm<int8,float,4>", 256, 4) T_FIELDS(TS8f4, "packSnorm<int8,float,4>") T_PACK(TS8f4, "packSnorm<int8,float,4>")
T_WORDS_SWEEP(TS16f2, "packSnorm<int16,float,2>", 256, 4) T_FIELDS(TS16f2, "packSnorm<int16,float,2>") T_PACK(TS16f2, "packSnorm<int16,float,2>")
T_WORDS_RANDOM(TS16f3, "packSnorm<int16,float,3>") T_FIELDS(TS16f3, "packSnorm<int16,float,3>") T_PACK(TS16f3, "packSnorm<int16,float,3>")
T_WORDS_SWEEP(TS8d2, "packSnorm<int8,double,2>", 1, 1) T_PACK(TS8d2, "packSnorm<int8,double,2>")
T_WORDS_RANDOM(TS16d4, "packSnorm<int16,double,4>") T_FIELDS(TS16d4, "packSnorm<int16,double,4>") T_PACK(TS16d4, "packSnorm<int16,double,4>")
T_WORDS_SWEEP(TS32d1, "packSnorm<int32,double,1>", 256, 1) T_PACK(TS32d1, "packSnorm<int32,double,1>")
T_WORDS_RANDOM(TS32d2, "packSnorm<int32,double,2>") T_PACK(TS32d2, "packSnorm<int32,double,2>")

// ---- integer packers
#define IFMT_BEGIN(NAME, NFv, ...) \
	struct NAME { static constexpr int NF = NFv; static constexpr Field fields[4] = {__VA_ARGS__}; static const char* name() { return #NAME; }
#define IFMT_END };
#define UI(b) Field{b, UINT}
#define SI(b) Field{b, SINT}
IFMT_BEGIN(Int2x8, 2, SI(8), SI(8))
	static uint64_t pack(const int64_t* v) { return (glm::uint16)glm::packInt2x8(glm::i8vec2((glm::int8)v[0], (glm::int8)v[1])); }
	static void unpack(uint64_t w, int64_t* o) { glm::i8vec2 r = glm::unpackInt2x8((glm::int16)(glm::uint16)w); o[0] = r.x; o[1] = r.y; }
IFMT_END
IFMT_BEGIN(Uint2x8, 2, UI(8), UI(8))
	static uint64_t pack(const int64_t* v) { return glm::packUint2x8(glm::u8vec2((glm::uint8)v[0], (glm::uint8)v[1])); }
	static void unpack(uint64_t w, int64_t* o) { glm::u8vec2 r = glm::unpackUint2x8((glm::uint16)w); o[0] = r.x; o[1] = r.y; }
IFMT_END
IFMT_BEGIN(Int4x8, 4, SI(8), SI(8), SI(8), SI(8))
	static uint64_t pack(const int64_t* v) { return (glm::uint32)glm::packInt4x8(glm::i8vec4((glm::int8)v[0], (glm::int8)v[1], (glm::int8)v[2], (glm::int8)v[3])); }
	static void unpack(uint64_t w, int64_t* o) { glm::i8vec4 r = glm::unpackInt4x8((glm::int32)(glm::uint32)w); for (int i = 0; i < 4; ++i) o[i] = r[i]; }
IFMT_END
IFMT_BEGIN(Uint4x8, 4, UI(8), UI(8), UI(8), UI(8))
	static uint64_t pack(const int64_t* v) { return glm::packUint4x8(glm::u8vec4((glm::uint8)v[0], (glm::uint8)v[1], (glm::uint8)v[2], (glm::uint8)v[3])); }
	static void unpack(uint64_t w, int64_t* o) { glm::u8vec4 r = glm::unpackUint4x8((glm::uint32)w); for (int i = 0; i < 4; ++i) o[i] = r[i]; }
IFMT_END
IFMT_BEGIN(Int2x16, 2, SI(16), SI(16))
	static uint64_t pack(const int64_t* v) { return (glm::uint32)glm::packInt2x16(glm::i16vec2((glm::int16)v[0], (glm::int16)v[1])); }
	static void unpack(uint64_t w, int64_t* o) { glm::i16vec2 r = glm::unpackInt2x16((int)(glm::uint32)w); o[0] = r.x; o[1] = r.y; }
IFMT_END
IFMT_BEGIN(Uint2x16, 2, UI(16), UI(16))
	static uint64_t pack(const int64_t* v) { return glm::packUint2x16(glm::u16vec2((glm::uint16)v[0], (glm::uint16)v[1])); }
	static void unpack(uint64_t w, int64_t* o) { glm::u16vec2 r = glm::unpackUint2x16((glm::uint)w); o[0] = r.x; o[1] = r.y; }
IFMT_END
IFMT_BEGIN(Int4x16, 4, SI(16), SI(16), SI(16), SI(16))
	static uint64_t pack(const int64_t* v) { return (glm::uint64)glm::packInt4x16(glm::i16vec4((glm::int16)v[0], (glm::int16)v[1], (glm::int16)v[2], (glm::int16)v[3])); }
	static void unpack(uint64_t w, int64_t* o) { glm::i16vec4 r = glm::unpackInt4x16((glm::int64)w); for (int i = 0; i < 4; ++i) o[i] = r[i]; }
IFMT_END
IFMT_BEGIN(Uint4x16, 4, UI(16), UI(16), UI(16), UI(16))
	static uint64_t pack(const int64_t* v) { return glm::packUint4x16(glm::u16vec4((glm::uint16)v[0], (glm::uint16)v[1], (glm::uint16)v[2], (glm::uint16)v[3])); }
	static void unpack(uint64_t w, int64_t* o) { glm::u16vec4 r = glm::unpackUint4x16((glm::uint64)w); for (int i = 0; i < 4; ++i) o[i] = r[i]; }
IFMT_END
IFMT_BEGIN(Int2x32, 2, SI(32), SI(32))
	static uint64_t pack(const int64_t* v) { return (glm::uint64)glm::packInt2x32(glm::i32vec2((glm::int32)v[0], (glm::int32)v[1])); }
	static void unpack(uint64_t w, int64_t* o) { glm::i32vec2 r = glm::unpackInt2x32((glm::int64)w); o[0] = r.x; o[1] = r.y; }
IFMT_END
IFMT_BEGIN(Uint2x32, 2, UI(32), UI(32))
	static uint64_t pack(const int64_t* v) { return glm::packUint2x32(glm::u32vec2((glm::uint32)v[0], (glm::uint32)v[1])); }
	static void unpack(uint64_t w, int64_t* o) { glm::u32vec2 r = glm::unpackUint2x32((glm::uint64)w); o[0] = r.x; o[1] = r.y; }
IFMT_END
// inputs stay inside the 10/2-bit ranges (the format cannot hold anything else; out-of-range is not documented)
IFMT_BEGIN(I3x10_1x2, 4, SI(10), SI(10), SI(10), SI(2))
	static uint64_t pack(const int64_t* v) { return glm::packI3x10_1x2(glm::ivec4((int)v[0], (int)v[1], (int)v[2], (int)v[3])); }
	static void unpack(uint64_t w, int64_t* o) { glm::ivec4 r = glm::unpackI3x10_1x2((glm::uint32)w); for (int i = 0; i < 4; ++i) o[i] = r[i]; }
IFMT_END
IFMT_BEGIN(U3x10_1x2, 4, UI(10), UI(10), UI(10), UI(2))
	static uint64_t pack(const int64_t* v) { return glm::packU3x10_1x2(glm::uvec4((glm::uint)v[0], (glm::uint)v[1], (glm::uint)v[2], (glm::uint)v[3])); }
	static void unpack(uint64_t w, int64_t* o) { glm::uvec4 r = glm::unpackU3x10_1x2((glm::uint32)w); for (int i = 0; i < 4; ++i) o[i] = r[i]; }
IFMT_END

#define RULE_IWORDS "packed word <-> vector of its fields (two's complement, sign-extended for the signed formats; component 0 = least-significant bits), bit-exact in both directions; non-trivial = fields pairwise distinct, one not in {0, all-ones}"
#define I_SMALL(F) static void iw_##F(pbt::Ctx& c) { packcheck::prop_int_words<F>(c); } PBT_SWEEP(#F "/words", iw_##F, 1ULL << packcheck::total_bits<F>(), 1, 1, RULE_IWORDS);
#define I_WORD32(F) static void iw_##F(pbt::Ctx& c) { packcheck::prop_int_words<F>(c); } PBT_SWEEP(#F "/words", iw_##F, 1ULL << 32, 256, 1, RULE_IWORDS); \
	static void if_##F(pbt::Ctx& c) { packcheck::prop_int_fields<F>(c); } PBT_SWEEP(#F "/fields", if_##F, packcheck::fields_domain<F>(), 1, 1, "every code of every field, the others all-zero / all-one / random; " RULE_IWORDS);
#define I_WORD64(F) static void iw_##F(pbt::Ctx& c) { packcheck::prop_int_words<F>(c); } PBT_RANDOM(#F "/words", iw_##F, 1000000, 30000000, "fields from {0, 1, max, sign bit and neighbours, single bits, runs, random}; " RULE_IWORDS);
#define I_FIELDS(F) static void if_##F(pbt::Ctx& c) { packcheck::prop_int_fields<F>(c); } PBT_SWEEP(#F "/fields", if_##F, packcheck::fields_domain<F>(), 1, 1, "every code of every field, the others all-zero / all-one / random; " RULE_IWORDS);
I_SMALL(Int2x8) I_SMALL(Uint2x8)
I_WORD32(Int4x8) I_WORD32(Uint4x8) I_WORD32(Int2x16) I_WORD32(Uint2x16) I_WORD32(I3x10_1x2) I_WORD32(U3x10_1x2)
I_WORD64(Int4x16) I_FIELDS(Int4x16) I_WORD64(Uint4x16) I_FIELDS(Uint4x16)
I_WORD64(Int2x32) I_WORD64(Uint2x32)

// ---- packDouble2x32 / unpackDouble2x32 (core): bit-level representation preserved, component 0 = 32 least-significant bits
static uint32_t gen_u32(pbt::Ctx& c) { return c.coin() ? fp::gen_int<uint32_t>(c) : (uint32_t)c.draw(1ULL << 32); }
static void prop_double2x32(pbt::Ctx& c) {
	uint32_t lo, hi;
	if (c.draw(3) == 0) { uint64_t u = fp::d2u(fp::gen_float<double>(c, fp::FD_ANY)); lo = (uint32_t)u; hi = (uint32_t)(u >> 32); }
	else { lo = gen_u32(c); hi = gen_u32(c); }
	const uint64_t word = ((uint64_t)hi << 32) | lo;
	const double asd = fp::u2d(word);
	c.logf("(lo=0x%08x, hi=0x%08x) <-> double bits 0x%016llx (%a)", lo, hi, (unsigned long long)word, asd);
	const bool special = fp::is_nan(asd) || fp::is_inf(asd);
	if (special) c.cls("inf-or-nan-pattern");  // "If an IEEE 754 Inf or NaN is created ... the resulting floating point value is unspecified"
	else {
		double d = glm::packDouble2x32(glm::uvec2(lo, hi));
		if (fp::d2u(d) != word) c.fail("packDouble2x32/finite", "packDouble2x32(0x%08x, 0x%08x) has bits 0x%016llx, expected 0x%016llx", lo, hi, (unsigned long long)fp::d2u(d), (unsigned long long)word);
	}
	glm::uvec2 r = glm::unpackDouble2x32(asd);
	if (r.x != lo || r.y != hi) c.fail(special ? "unpackDouble2x32/inf-or-nan" : "unpackDouble2x32/finite", "unpackDouble2x32(bits 0x%016llx) = (0x%08x, 0x%08x), expected (0x%08x, 0x%08x)", (unsigned long long)word, r.x, r.y, lo, hi);
	if (lo != hi && lo && hi) c.nontrivial();
}
PBT_RANDOM("Double2x32", prop_double2x32, 1000000, 30000000, "structured doubles (specials, powers of two, subnormals, NaN/Inf) and structured/random 32-bit halves; packDouble2x32 compared bit-exactly unless the pattern is Inf/NaN (documented as unspecified), unpackDouble2x32 on every pattern; non-trivial = two distinct non-zero halves");
