// C01 (common functions, glm/common.hpp = detail/func_common.inl) — component i of f(vec...) against the scalar overload
// f(x_i...), every documented overload shape (vec.vec, vec.scalar, scalar.vec, vec.scalar.scalar, vec.vec.scalar, scalar.scalar.vec).
// Classes: BITS for selection (min max clamp step mix(bool)), rounding (floor ceil trunc round roundEven fract modf), classification
// (isnan isinf), sign/abs, frexp/ldexp (single library call); EXACT representation for the bit casts; rounding bound of the
// documented formula for mix, smoothstep, mod, fma (both sides evaluate the same formula here, so the observed error is 0 and
// the bound only matters if an implementation changes).
#include "fp.hpp"
#include "ref/c01_support.hpp"
#include <glm/glm.hpp>
#include <glm/ext/scalar_int_sized.hpp>
#include <glm/ext/scalar_uint_sized.hpp>
#include "c01_have.hpp"

#ifndef C01_TIER
#define C01_TIER 0
#endif
#ifndef C01_COMMON_PART
#define C01_COMMON_PART 1  // 1: float/double + the float sweep (this file), 2: integer element types (C01_common_b.cpp)
#endif
using namespace c01;

namespace c01 { struct Fn_abs {}; struct Fn_sign {}; struct Fn_min {}; struct Fn_max {}; struct Fn_clamp {}; struct Fn_mix_bool {}; }

template <class T> static long double ld(T v) { return (long double)v; }
template <class T> static long double eps_() { return (long double)std::numeric_limits<T>::epsilon(); }
template <class T> static long double dmin_() { return (long double)std::numeric_limits<T>::denorm_min(); }

#if C01_COMMON_PART == 1
// ---- floating-point element types ---------------------------------------------------------------------------
template <class T, int L, glm::qualifier Q> static void run_common_fp(pbt::Ctx& c, const Inst& in) {
	typedef glm::vec<L, T, Q> V;
	typedef glm::vec<L, bool, Q> B;
	typedef glm::vec<L, int, Q> I;
	FnCtx fc(c, in);
	T any[4], nn[4], nn2[4], nn3[4], md[4], md2[4], md3[4], r31[4];
	fill(c, any, L, [&] { return gen_any<T>(c); });
	{ static const T SP[4] = {std::numeric_limits<T>::quiet_NaN(), std::numeric_limits<T>::infinity(), -std::numeric_limits<T>::infinity(), -T(0)}; if (c.draw(4) == 0) any[c.draw(L)] = SP[c.draw(4)]; }
	fill(c, nn, L, [&] { return gen_nonnan<T>(c); });
	fill(c, nn2, L, [&] { return gen_nonnan<T>(c); });
	fill(c, nn3, L, [&] { return gen_nonnan<T>(c); });
	fill(c, md, L, [&] { return gen_mod<T>(c); });
	fill(c, md2, L, [&] { return gen_mod<T>(c); });
	fill(c, md3, L, [&] { return gen_mod<T>(c); });
	for (int i = 0; i < L; ++i) { T v = nn[i]; if (!(std::fabs(v) < T(2147483000.0))) v = md[i]; r31[i] = v; }  // roundEven: static_cast<int>(x) inside -> |x| < 2^31
	T s = gen_nonnan<T>(c), t = gen_nonnan<T>(c), ms = gen_mod<T>(c);
	// planted relations between lanes of different operands (ties for min/max/step/clamp)
	if (c.draw(4) == 0) { int i = (int)c.draw(L); nn2[i] = nn[i]; }
	if (c.draw(4) == 0) { int i = (int)c.draw(L); s = nn[i]; }
	if (c.verbose) c.logf("%s any=%s x=%s y=%s z=%s m=%s m2=%s m3=%s s=%s t=%s ms=%s", in.name.c_str(), showv(any, L).c_str(), showv(nn, L).c_str(), showv(nn2, L).c_str(), showv(nn3, L).c_str(),
	                      showv(md, L).c_str(), showv(md2, L).c_str(), showv(md3, L).c_str(), show(s).c_str(), show(t).c_str(), show(ms).c_str());

	fn1<V>(fc, "abs", JBits(), any, C01_F1(abs), "abs");
	fn1<V>(fc, "sign", JBits(), any, C01_F1(sign), nullptr);  // results are -1/0/1: never pairwise distinct for L = 4
	fn1<V>(fc, "floor", JBits(), nn, C01_F1(floor), "floor");
	fn1<V>(fc, "ceil", JBits(), nn, C01_F1(ceil), "ceil");
	fn1<V>(fc, "trunc", JBits(), nn, C01_F1(trunc), "trunc");
	fn1<V>(fc, "round", JBits(), nn, C01_F1(round), "round");
	fn1<V>(fc, "roundEven", JBits(), r31, C01_F1(roundEven), "roundEven");
	fn1<V>(fc, "fract", JBits(), nn, C01_F1(fract), "fract");
	fn1<V>(fc, "isnan", JBits(), any, C01_F1(isnan), nullptr);
	fn1<V>(fc, "isinf", JBits(), any, C01_F1(isinf), nullptr);
	{  // class counters for the classification functions (results cannot be pairwise distinct)
		int nnan = 0, ninf = 0;
		for (int i = 0; i < L; ++i) { nnan += fp::is_nan(any[i]); ninf += fp::is_inf(any[i]); }
		if (nnan > 0 && nnan < L) c.cls("isnan: mixed lanes");
		if (ninf > 0 && ninf < L) c.cls("isinf: mixed lanes");
	}
	// min / max: vec.vec and vec.scalar
	fn2<V, 3>(fc, "min", JBits(), nn, nn2, s, C01_F2(min), "min");
	fn2<V, 3>(fc, "max", JBits(), nn, nn2, s, C01_F2(max), "max");
	// clamp(x, lo, hi) with lo <= hi per lane (documented precondition)
	{
		T lo[4], hi[4], slo = s, shi = t;
		for (int i = 0; i < L; ++i) { lo[i] = nn2[i]; hi[i] = nn3[i]; if (hi[i] < lo[i]) std::swap(lo[i], hi[i]); }
		if (shi < slo) std::swap(slo, shi);
		fn3<V, 3>(fc, "clamp", JBits(), nn, lo, hi, slo, shi, C01_F3(clamp), "clamp");
	}
	// step(edge, x): vec.vec and scalar.vec; x == edge is planted above (nn2[i] = nn[i], s = nn[i])
	fn2<V, 5>(fc, "step", JBits(), nn2, nn, s, C01_F2(step), nullptr);
	// step is a comparison plus a selection: with a NaN lane in x or in edge the vector overloads must still do what the scalar overload
	// does with that component (x < edge is false, so 1)
	fn2<V, 5>(fc, "step", JBits(), nn2, any, s, C01_F2(step), nullptr);
	fn2<V, 5>(fc, "step", JBits(), any, nn, s, C01_F2(step), nullptr);
	{ int lt = 0, eq = 0; for (int i = 0; i < L; ++i) { lt += nn[i] < nn2[i]; eq += nn[i] == nn2[i]; } if (eq) c.cls("step: x == edge in some lane"); if (lt > 0 && lt < L) c.cls("step: both outcomes among the lanes"); }
	// mix with a floating-point interpolator: x*(1-a) + y*a
	{
		T a[4], sa = (c.draw(4) == 0) ? gen_mod<T>(c, 4, 2) : gen_in<T>(c, 0.0, 1.0);
		for (int i = 0; i < L; ++i) a[i] = (c.draw(4) == 0) ? md3[i] : gen_in<T>(c, 0.0, 1.0);
		auto tol = [](const T* o) { return 8 * eps_<T>() * (fabsl(ld(o[0])) * fabsl(1 - ld(o[2])) + fabsl(ld(o[1])) * fabsl(ld(o[2]))) + 4 * dmin_<T>(); };
		fn3<V, 5>(fc, "mix", jtol("mix err/tol", tol), md, md2, a, sa, sa, C01_F3(mix), "mix");
	}
	// mix with an interpolator of the other floating-point type (mix(vec<float>, vec<float>, double) and the reverse): the documented
	// formula is evaluated in the interpolator's type U and converted to T once, exactly as the scalar overload mix(T, T, U) does
	{
		typedef typename std::conditional<std::is_same<T, float>::value, double, float>::type UT;
		const UT ua = (c.draw(4) == 0) ? (UT)gen_mod<T>(c, 4, 2) : (UT)c.unit();
		V r = glm::mix(mkv<V>(md), mkv<V>(md2), ua);
		for (int i = 0; i < L; ++i) {
			T w = glm::mix(md[i], md2[i], ua);
			T e = static_cast<T>(static_cast<UT>(md[i]) * (static_cast<UT>(1) - ua) + static_cast<UT>(md2[i]) * ua);
			if (!eq_bits(r[i], w) || !eq_bits(r[i], e)) { c.failk(key("mix-other-float-type", "vec.vec.U", L, in.tn), "%s: mix(%s, %s, %s(%.17g)) component %d = %s, scalar mix gives %s, formula in U gives %s", in.name.c_str(), showv(md, L).c_str(), showv(md2, L).c_str(), sizeof(UT) == 4 ? "float" : "double", (double)ua, i, show<T>(r[i]).c_str(), show(w).c_str(), show(e).c_str()); break; }
		}
		c.cls("mix: interpolator of the other floating-point type");
	}
	// mix with a boolean selector: vec<L,bool> and bool
	{
		bool sel[4], sb = c.coin();
		for (int i = 0; i < L; ++i) sel[i] = c.coin();
		B vs; for (int i = 0; i < L; ++i) vs[i] = sel[i];
		V r = glm::mix(mkv<V>(any), mkv<V>(nn), vs), r1 = glm::mix(mkv<V>(any), mkv<V>(nn), sb);
		int nt = 0;
		for (int i = 0; i < L; ++i) {
			T w = glm::mix(any[i], nn[i], sel[i]), w1 = glm::mix(any[i], nn[i], sb);
			nt += sel[i];
			if (!eq_bits(r[i], w)) { c.failk(key("mix-bool", "vec.vec.bvec", L, in.tn), "%s: mix(%s, %s, bvec) component %d = %s, scalar mix(%s,%s,%d) = %s", in.name.c_str(), showv(any, L).c_str(), showv(nn, L).c_str(), i, show<T>(r[i]).c_str(), show(any[i]).c_str(), show(nn[i]).c_str(), (int)sel[i], show(w).c_str()); break; }
			if (!eq_bits(r1[i], w1)) { c.failk(key("mix-bool", "vec.vec.bool", L, in.tn), "%s: mix(%s, %s, %d) component %d = %s, scalar gives %s", in.name.c_str(), showv(any, L).c_str(), showv(nn, L).c_str(), (int)sb, i, show<T>(r1[i]).c_str(), show(w1).c_str()); break; }
		}
		if (L >= 2 && nt > 0 && nt < L && distinct(any, L) && distinct(nn, L)) { fc.nontriv = true; c.cls("mix-bool: mixed selector"); }
	}
	// smoothstep(edge0, edge1, x), edge0 < edge1 (documented precondition); x below, on, between and above the edges
	{
		T e0[4], e1[4], x[4], se0 = md[0], se1 = md2[0];
		if (se1 < se0) std::swap(se0, se1);
		if (se0 == se1) se1 = se0 + T(1);
		for (int i = 0; i < L; ++i) {
			e0[i] = md[i]; e1[i] = md2[i];
			if (e1[i] < e0[i]) std::swap(e0[i], e1[i]);
			if (e0[i] == e1[i]) e1[i] = e0[i] + T(1);
			switch (c.draw(6)) { case 0: x[i] = e0[i]; break; case 1: x[i] = e1[i]; break; case 2: x[i] = md3[i]; break; default: x[i] = e0[i] + (e1[i] - e0[i]) * (T)c.unit(); }
		}
		auto tol = [](const T*) { return 16 * eps_<T>(); };
		fn3<V, 1>(fc, "smoothstep", jtol("smoothstep err/tol", tol), e0, e1, x, T(0), T(0), C01_F3(smoothstep), "smoothstep");
		T xs[4];
		for (int i = 0; i < L; ++i) xs[i] = (c.draw(4) == 0) ? md3[i] : se0 + (se1 - se0) * (T)c.unit();
		fn3<V, 8>(fc, "smoothstep", jtol("smoothstep err/tol", tol), e0, e1, xs, se0, se1, C01_F3(smoothstep), "smoothstep");
	}
	// mod(x, y) = x - y*floor(x/y), y != 0: vec.vec and vec.scalar
	{
		T y[4], sy = ms == 0 ? T(1) : ms;
		for (int i = 0; i < L; ++i) y[i] = md2[i] == 0 ? T(3) : md2[i];
		auto tol = [](const T* o) { long double q = floorl(ld(o[0]) / ld(o[1])); return 8 * eps_<T>() * (fabsl(ld(o[0])) + fabsl(ld(o[1]) * q) + fabsl(ld(o[1]))) + 4 * dmin_<T>(); };
		fn2<V, 3>(fc, "mod", jtol("mod err/tol", tol), md, y, sy, C01_F2(mod), "mod");
	}
	// fma(a, b, c) = a*b + c (the scalar overload is std::fma, fused; the vector overload rounds the product)
	{
		auto tol = [](const T* o) { return 8 * eps_<T>() * (fabsl(ld(o[0]) * ld(o[1])) + fabsl(ld(o[2]))) + 4 * dmin_<T>(); };
		fn3<V, 1>(fc, "fma", jtol("fma err/tol", tol), md, md2, md3, T(0), T(0), C01_F3(fma), "fma");
	}
	// modf(x, out i)
	{
		V ip(T(7)); V fr = glm::modf(mkv<V>(nn), ip);
		T wf[4];
		for (int i = 0; i < L; ++i) {
			T wi = T(7); wf[i] = glm::modf(nn[i], wi);
			if (!match<T>(c, BITS, fr[i], wf[i]) || !match<T>(c, BITS, ip[i], wi)) { c.failk(key("modf", "vec.out-vec", L, in.tn), "%s: modf(%s) component %d = (%s, i=%s), scalar modf(%s) = (%s, i=%s)", in.name.c_str(), showv(nn, L).c_str(), i, show<T>(fr[i]).c_str(), show<T>(ip[i]).c_str(), show(nn[i]).c_str(), show(wf[i]).c_str(), show(wi).c_str()); break; }
		}
		note_nontrivial(fc, L, nn, wf, "modf");
	}
	// frexp(x, out e) on finite x, ldexp(x, e)
	{
		T x[4]; int ex[4], we[4]; T wf[4];
		for (int i = 0; i < L; ++i) { x[i] = fp::is_finite(nn[i]) ? nn[i] : md[i]; ex[i] = (int)c.range(-40, 40); if (c.draw(8) == 0) ex[i] = (int)c.range(-1100, 1100); }
		I e(99); V fr = glm::frexp(mkv<V>(x), e);
		for (int i = 0; i < L; ++i) {
			we[i] = 99; wf[i] = glm::frexp(x[i], we[i]);
			if (!match<T>(c, BITS, fr[i], wf[i]) || e[i] != we[i]) { c.failk(key("frexp", "vec.out-ivec", L, in.tn), "%s: frexp(%s) component %d = (%s, e=%d), scalar frexp(%s) = (%s, e=%d)", in.name.c_str(), showv(x, L).c_str(), i, show<T>(fr[i]).c_str(), e[i], show(x[i]).c_str(), show(wf[i]).c_str(), we[i]); break; }
		}
		note_nontrivial(fc, L, x, wf, "frexp");
		I ve; for (int i = 0; i < L; ++i) ve[i] = ex[i];
		V ld_ = glm::ldexp(mkv<V>(x), ve);
		T wl[4];
		for (int i = 0; i < L; ++i) {
			wl[i] = glm::ldexp(x[i], ex[i]);
			if (!match<T>(c, BITS, ld_[i], wl[i])) { c.failk(key("ldexp", "vec.ivec", L, in.tn), "%s: ldexp(%s, %s) component %d = %s, scalar ldexp(%s, %d) = %s", in.name.c_str(), showv(x, L).c_str(), showv(ex, L).c_str(), i, show<T>(ld_[i]).c_str(), show(x[i]).c_str(), ex[i], show(wl[i]).c_str()); break; }
		}
		note_nontrivial(fc, L, x, wl, "ldexp", distinct(ex, L));
	}
	// bit casts (float only): the representation is the point, NaN payloads included
	if constexpr (std::is_same<T, float>::value) {
		fn1<V>(fc, "floatBitsToInt", JExact(), any, C01_F1(floatBitsToInt), "floatBitsToInt");
		fn1<V>(fc, "floatBitsToUint", JExact(), any, C01_F1(floatBitsToUint), "floatBitsToUint");
		int ib[4]; glm::uint ub[4];
		for (int i = 0; i < L; ++i) { ib[i] = (int)fp::f2u(any[i]); ub[i] = fp::f2u(nn[i]); if (c.draw(4) == 0) { ib[i] = (int)(uint32_t)c.draw(1ULL << 32); ub[i] = (glm::uint)c.draw(1ULL << 32); } }
		typedef glm::vec<L, int, Q> VI; typedef glm::vec<L, glm::uint, Q> VU;
		FnCtx fi(c, in);
		fn1<VI>(fi, "intBitsToFloat", JExact(), ib, C01_F1(intBitsToFloat), "intBitsToFloat");
		fn1<VU>(fi, "uintBitsToFloat", JExact(), ub, C01_F1(uintBitsToFloat), "uintBitsToFloat");
		if (fi.nontriv) fc.nontriv = true;
	}
	if (fc.nontriv) c.nontrivial();
}

#else
// ---- integer element types: abs sign (signed) min max clamp mix(bool) ---------------------------------------------
template <class T, int L, glm::qualifier Q> static void run_common_int(pbt::Ctx& c, const Inst& in) {
	typedef glm::vec<L, T, Q> V;
	typedef glm::vec<L, bool, Q> B;
	FnCtx fc(c, in);
	T x[4], y[4], z[4];
	fill(c, x, L, [&] { return gen_any<T>(c); });
	fill(c, y, L, [&] { return gen_any<T>(c); });
	fill(c, z, L, [&] { return gen_any<T>(c); });
	T s = gen_any<T>(c), t = gen_any<T>(c);
	if (c.draw(4) == 0) { int i = (int)c.draw(L); y[i] = x[i]; }
	if (c.draw(4) == 0) { int i = (int)c.draw(L); s = x[i]; }
	if (c.verbose) c.logf("%s x=%s y=%s z=%s s=%s t=%s", in.name.c_str(), showv(x, L).c_str(), showv(y, L).c_str(), showv(z, L).c_str(), show(s).c_str(), show(t).c_str());
	if constexpr (std::is_signed<T>::value) {
		T sx[4];
		for (int i = 0; i < L; ++i) sx[i] = x[i] == std::numeric_limits<T>::min() ? (T)(x[i] + 1) : x[i];  // -INT_MIN overflows inside abs / sign
		if constexpr (HaveFn<Fn_abs, T>::v) fn1<V>(fc, "abs", JBits(), sx, C01_F1(abs), "abs");
		if constexpr (HaveFn<Fn_sign, T>::v) fn1<V>(fc, "sign", JBits(), sx, C01_F1(sign), nullptr);
	}
	if constexpr (HaveFn<Fn_min, T>::v) fn2<V, 3>(fc, "min", JBits(), x, y, s, C01_F2(min), "min");
	if constexpr (HaveFn<Fn_max, T>::v) fn2<V, 3>(fc, "max", JBits(), x, y, s, C01_F2(max), "max");
	if constexpr (HaveFn<Fn_clamp, T>::v) {
		T lo[4], hi[4], slo = s, shi = t;
		for (int i = 0; i < L; ++i) { lo[i] = y[i]; hi[i] = z[i]; if (hi[i] < lo[i]) std::swap(lo[i], hi[i]); }
		if (shi < slo) std::swap(slo, shi);
		fn3<V, 3>(fc, "clamp", JBits(), x, lo, hi, slo, shi, C01_F3(clamp), "clamp");
	}
	if constexpr (HaveFn<Fn_mix_bool, T>::v) {
		bool sel[4], sb = c.coin(); int nt = 0;
		B vs; for (int i = 0; i < L; ++i) { sel[i] = c.coin(); vs[i] = sel[i]; nt += sel[i]; }
		V r = glm::mix(mkv<V>(x), mkv<V>(y), vs), r1 = glm::mix(mkv<V>(x), mkv<V>(y), sb);
		for (int i = 0; i < L; ++i) {
			T w = glm::mix(x[i], y[i], sel[i]), w1 = glm::mix(x[i], y[i], sb);
			if (r[i] != w) { c.failk(key("mix-bool", "vec.vec.bvec", L, in.tn), "%s: mix(%s, %s, bvec) component %d = %s, scalar mix gives %s", in.name.c_str(), showv(x, L).c_str(), showv(y, L).c_str(), i, show<T>(r[i]).c_str(), show(w).c_str()); break; }
			if (r1[i] != w1) { c.failk(key("mix-bool", "vec.vec.bool", L, in.tn), "%s: mix(%s, %s, %d) component %d = %s, scalar mix gives %s", in.name.c_str(), showv(x, L).c_str(), showv(y, L).c_str(), (int)sb, i, show<T>(r1[i]).c_str(), show(w1).c_str()); break; }
		}
		if (L >= 2 && nt > 0 && nt < L && distinct(x, L) && distinct(y, L)) { fc.nontriv = true; c.cls("mix-bool: mixed selector"); }
	}
	// mix with a floating-point interpolator on an integer vector (T and U differ): vec.vec.U and vec.vec.vec<U> against the scalar
	// overload mix(T, T, U) and against the documented formula T(U(x) * (1 - a) + U(y) * a); operands small, a in [0,1]: the result is representable
	{
		T xs[4], ys[4]; float af = (float)c.unit(), av[4]; double ad = c.unit();
		for (int i = 0; i < L; ++i) { xs[i] = std::is_signed<T>::value ? (T)((long long)x[i] % 1000) : (T)((unsigned long long)x[i] % 1000); ys[i] = std::is_signed<T>::value ? (T)((long long)y[i] % 1000) : (T)((unsigned long long)y[i] % 1000); av[i] = (c.draw(4) == 0) ? (float)(c.draw(3)) * 0.5f : (float)c.unit(); }
		V rf = glm::mix(mkv<V>(xs), mkv<V>(ys), af), rd = glm::mix(mkv<V>(xs), mkv<V>(ys), ad);
		glm::vec<L, float, Q> va; for (int i = 0; i < L; ++i) va[i] = av[i];
		V rv = glm::mix(mkv<V>(xs), mkv<V>(ys), va);
		for (int i = 0; i < L; ++i) {
			T wf = glm::mix(xs[i], ys[i], af), wd = glm::mix(xs[i], ys[i], ad), wv = glm::mix(xs[i], ys[i], av[i]);
			T ef = static_cast<T>(static_cast<float>(xs[i]) * (1.0f - af) + static_cast<float>(ys[i]) * af), ed = static_cast<T>(static_cast<double>(xs[i]) * (1.0 - ad) + static_cast<double>(ys[i]) * ad);
			if (rf[i] != wf || rf[i] != ef) { c.failk(key("mix-float-on-int", "vec.vec.float", L, in.tn), "%s: mix(%s, %s, %.9gf) component %d = %s, scalar mix gives %s, formula %s", in.name.c_str(), showv(xs, L).c_str(), showv(ys, L).c_str(), (double)af, i, show<T>(rf[i]).c_str(), show(wf).c_str(), show(ef).c_str()); break; }
			if (rd[i] != wd || rd[i] != ed) { c.failk(key("mix-float-on-int", "vec.vec.double", L, in.tn), "%s: mix(%s, %s, %.17g) component %d = %s, scalar mix gives %s, formula %s", in.name.c_str(), showv(xs, L).c_str(), showv(ys, L).c_str(), ad, i, show<T>(rd[i]).c_str(), show(wd).c_str(), show(ed).c_str()); break; }
			if (rv[i] != wv) { c.failk(key("mix-float-on-int", "vec.vec.vec<float>", L, in.tn), "%s: mix(%s, %s, vec<float>) component %d = %s, scalar mix(.., %.9gf) gives %s", in.name.c_str(), showv(xs, L).c_str(), showv(ys, L).c_str(), i, show<T>(rv[i]).c_str(), (double)av[i], show(wv).c_str()); break; }
		}
		c.cls("mix: integer vector, floating interpolator");
	}
	if (fc.nontriv) c.nontrivial();
}

#endif
#if C01_COMMON_PART == 1
// ---- exhaustive float sweep: every bit pattern through the cheap unary functions, vec4 (lanes x, -x, bits^0x00400001, next pattern) ----
static void prop_sweep(pbt::Ctx& c) {
	typedef glm::vec<4, float, glm::highp> V;
	static const Inst in = {"vec4<float,highp>", nullptr, 4, 0, "float"};
	uint32_t u = (uint32_t)c.draw(1ULL << 32);
	float x[4] = {fp::u2f(u), fp::u2f(u ^ 0x80000000u), fp::u2f(u ^ 0x00400001u), fp::u2f(u + 1)};
	if (c.verbose) c.logf("vec4<float,highp> x=%s (bits 0x%08x)", showv(x, 4).c_str(), u);
	FnCtx fc(c, in);
	fn1<V>(fc, "abs", JBits(), x, C01_F1(abs), nullptr);
	fn1<V>(fc, "sign", JBits(), x, C01_F1(sign), nullptr);
	fn1<V>(fc, "floor", JBits(), x, C01_F1(floor), nullptr);
	fn1<V>(fc, "ceil", JBits(), x, C01_F1(ceil), nullptr);
	fn1<V>(fc, "trunc", JBits(), x, C01_F1(trunc), nullptr);
	fn1<V>(fc, "round", JBits(), x, C01_F1(round), nullptr);
	fn1<V>(fc, "fract", JBits(), x, C01_F1(fract), nullptr);
	fn1<V>(fc, "isnan", JBits(), x, C01_F1(isnan), nullptr);
	fn1<V>(fc, "isinf", JBits(), x, C01_F1(isinf), nullptr);
	fn1<V>(fc, "floatBitsToInt", JExact(), x, C01_F1(floatBitsToInt), nullptr);
	fn1<V>(fc, "floatBitsToUint", JExact(), x, C01_F1(floatBitsToUint), nullptr);
	fn1<V>(fc, "radians", JBits(), x, C01_F1(radians), nullptr);
	fn1<V>(fc, "degrees", JBits(), x, C01_F1(degrees), nullptr);
	fn1<V>(fc, "sqrt", JBits(), x, C01_F1(sqrt), nullptr);
	fn1<V>(fc, "inversesqrt", JBits(), x, C01_F1(inversesqrt), nullptr);
	bool small = true;
	for (int i = 0; i < 4; ++i) if (!(std::fabs(x[i]) < 2147483000.0f)) small = false;
	if (small) { fn1<V>(fc, "roundEven", JBits(), x, C01_F1(roundEven), nullptr); c.cls("roundEven domain (|x| < 2^31)"); }
	if (fp::is_nan(x[0])) c.cls("NaN pattern"); else if (fp::is_inf(x[0])) c.cls("inf"); else if (x[0] == 0) c.cls("zero"); else if (std::fabs(x[0]) < 1.17549435e-38f) c.cls("subnormal"); else c.cls("normal");
	if (!fp::is_nan(x[0])) c.nontrivial();
}

// ---- registration ----------------------------------------------------------------------------------------------
#endif
#if C01_COMMON_PART == 1
static Table& tab_fp() { static Table t; return t; }
static void prop_common_fp(pbt::Ctx& c) { Table& t = tab_fp(); const Inst& in = t[c.draw(t.size())]; in.run(c, in); }
static int reg_all() {
	C01_REG(tab_fp(), run_common_fp, float) C01_REG(tab_fp(), run_common_fp, double)
	add_target("common/float-double", prop_common_fp, tab_fp().size(), 30000, 800000,
	           "instance = vec<L,float|double,Q>; every case runs abs sign floor ceil trunc round roundEven fract isnan isinf min max clamp step mix(float) mix(bool) smoothstep mod fma modf frexp ldexp and the four bit casts "
	           "in every documented overload shape; operands: special lattice + random bit patterns per documented domain (NaN only for abs sign isnan isinf bit casts mix(bool); lo <= hi; edge0 < edge1; y != 0; "
	           "|x| < 2^31 for roundEven; finite x for frexp/ldexp), x == edge / equal operands planted; non-trivial = L >= 2, pairwise distinct components with pairwise distinct scalar results (per-function class counters)");
	add_sweep("common/float-unary-sweep", prop_sweep, 1ULL << 32, 256, 16,
	          "every float bit pattern u (quick: one per block of 256, thorough: one per block of 16) as lane 0 of a vec4 (other lanes -x, bits^0x00400001, next pattern) through abs sign floor ceil trunc round roundEven(|x|<2^31) fract isnan isinf "
	          "floatBitsToInt floatBitsToUint radians degrees sqrt inversesqrt; non-trivial = lane 0 is not a NaN");
	return 0;
}
static const int reg_common = reg_all();
#else
static Table& tab_int() { static Table t; return t; }
static void prop_common_int(pbt::Ctx& c) { Table& t = tab_int(); const Inst& in = t[c.draw(t.size())]; in.run(c, in); }
static int reg_all() {
	C01_REG(tab_int(), run_common_int, glm::int32) C01_REG(tab_int(), run_common_int, glm::uint32) C01_REG(tab_int(), run_common_int, glm::int8) C01_REG(tab_int(), run_common_int, glm::uint64)
#if C01_TIER
	C01_REG(tab_int(), run_common_int, glm::uint8) C01_REG(tab_int(), run_common_int, glm::int16) C01_REG(tab_int(), run_common_int, glm::uint16) C01_REG(tab_int(), run_common_int, glm::int64)
#endif
	add_target("common/integers", prop_common_int, tab_int().size(), 30000, 800000,
	           "instance = vec<L,integer type,Q>; abs sign (signed, x != MIN) min max clamp mix(bool) in every overload shape on structured + random full-range integers; non-trivial as for common/float-double");
	return 0;
}
static const int reg_common_int = reg_all();
#endif
