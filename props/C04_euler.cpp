// C04 (part 2 of 3) — gtx/euler_angles (single-, two- and three-axis builders, derived matrices, yawPitchRoll, orientate*, the
// twelve extractEulerAngleABC) and gtx/rotate_vector (rotate, rotateX/Y/Z, orientation). No main() here (see C04_quat.cpp).
// Oracle: engine/ref/refrot.hpp — right-handed coordinate rotations Rx/Ry/Rz, their products and Rodrigues' formula in long double on
// the T-rounded angles. "eulerAngleABC = product of its single-axis factors" is checked twice: against the long-double product and
// against GLM's own eulerAngleA * eulerAngleB * eulerAngleC. Extraction is judged only by the matrix the angles rebuild.
#include "fp.hpp"
#include "ref/refrot.hpp"
#include <glm/glm.hpp>
#include <glm/gtc/quaternion.hpp>
#include <glm/gtx/euler_angles.hpp>
#include <glm/gtx/rotate_vector.hpp>

#ifndef C04_CFG
#define C04_CFG "xyzw"
#endif

using namespace refrot;

template <class T> static const char* tname() { return sizeof(T) == 4 ? "float" : "double"; }
template <class T> static std::string key(const char* fn, const char* what, const char* cls = nullptr) {
	std::string s = std::string(fn) + "/" + tname<T>() + "/" + what;
	if (cls) { s += "/"; s += cls; }
	return s;
}
template <class T> static glm::vec<3, T> GV(const T* v) { glm::vec<3, T> r; r.x = v[0]; r.y = v[1]; r.z = v[2]; return r; }
template <class T> static glm::qua<T> GQ(const T* q) { glm::qua<T> r; r.w = q[0]; r.x = q[1]; r.y = q[2]; r.z = q[3]; return r; }

#define REG2(fn, name, q, t, rule) \
	static void fn##_f(pbt::Ctx& c) { static const CaseAlign al(name "/float", name "/float/" C04_CFG); al.apply(c); fn<float>(c); } PBT_RANDOM(name "/float/" C04_CFG, fn##_f, q, t, rule); \
	static void fn##_d(pbt::Ctx& c) { static const CaseAlign al(name "/double", name "/double/" C04_CFG); al.apply(c); fn<double>(c); } PBT_RANDOM(name "/double/" C04_CFG, fn##_d, q, t, rule)

// last row and column of a homogeneous rotation must be exactly (0,0,0,1) (VALUE: a -0 is a zero)
template <class T> static bool homogeneous_ok(const glm::mat<4, 4, T>& m) {
	for (int i = 0; i < 4; ++i) if (!fp::same_value(m[3][i], T(i == 3)) || !fp::same_value(m[i][3], T(i == 3))) return false;
	return true;
}
template <class T> static R maxdiff4(const glm::mat<4, 4, T>& a, const glm::mat<4, 4, T>& b) { R d = 0; for (int i = 0; i < 4; ++i) for (int j = 0; j < 4; ++j) d = rmax(d, rabs((R)a[i][j] - (R)b[i][j])); return d; }

// =====================================================================================================================
// single-axis and two-axis builders, derived matrices, orientate2/orientate3(angle).
//   entries are 0, 1, +-sin, +-cos (<= 1 ulp each from libm) or one product of two of them: relative error <= 5u; bound 8 eps |entry|.
template <class T> static void euler12(pbt::Ctx& c) {
	int c0, c1;
	T a = gen_angle<T>(c, &c0), b = gen_angle<T>(c, &c1);
	T w = c.coin() ? T(1) : fp::gen_moderate<T>(c, 6, 6);
	c.cls(AC_NAME[c0]);
	if (c.verbose) c.logf("angles (%s,%s) angular velocity %s", fstr(a).c_str(), fstr(b).c_str(), fstr(w).c_str());
	const R eps = EPS<T>();
	if (a != 0 && b != 0 && std::fabs(std::sin((double)a)) > 1e-3 && std::fabs(std::sin((double)b)) > 1e-3) c.nontrivial();
	auto cmp = [&](const char* fn, const glm::mat<4, 4, T>& g, const M3& want, bool homog, R relk) {
		M3 gm = m3_of(g);
		R worst = 0;
		for (int i = 0; i < 3; ++i) for (int j = 0; j < 3; ++j) {
			R tol = relk * eps * rabs(want.m[i][j]) + TINY<T>();
			R e = rabs(gm.m[i][j] - want.m[i][j]);
			worst = rmax(worst, e == 0 ? 0 : e / tol);
		}
		c.metric("single/two-axis builder entry err/tol", (double)rmin(worst, 1e30L));
		if (!(worst <= 1)) c.failk(key<T>(fn, "reference-rotation"), "%s(%s,%s)=%s, reference %s", fn, fstr(a).c_str(), fstr(b).c_str(), mstr(gm).c_str(), mstr(want).c_str());
		if (homog && !homogeneous_ok(g)) c.failk(key<T>(fn, "homogeneous-part"), "%s(%s,%s): last row/column is not (0,0,0,1)", fn, fstr(a).c_str(), fstr(b).c_str());
	};
	glm::mat<4, 4, T> X = glm::eulerAngleX(a), Y = glm::eulerAngleY(a), Z = glm::eulerAngleZ(a);
	cmp("eulerAngleX", X, mcoord(0, (R)a), true, 4);
	cmp("eulerAngleY", Y, mcoord(1, (R)a), true, 4);
	cmp("eulerAngleZ", Z, mcoord(2, (R)a), true, 4);
	{  // derivative with respect to time of R_k(angle(t)): angular velocity times dR/dangle; everything outside the 2x2 block is 0
		for (int k = 0; k < 3; ++k) {
			glm::mat<4, 4, T> D = k == 0 ? glm::derivedEulerAngleX(a, w) : (k == 1 ? glm::derivedEulerAngleY(a, w) : glm::derivedEulerAngleZ(a, w));
			M3 want = mcoord_deriv(k, (R)a);
			for (int i = 0; i < 3; ++i) for (int j = 0; j < 3; ++j) want.m[i][j] *= (R)w;
			static const char* const DN[] = {"derivedEulerAngleX", "derivedEulerAngleY", "derivedEulerAngleZ"};
			cmp(DN[k], D, want, false, 8);
			bool z = true; for (int i = 0; i < 4; ++i) z = z && D[3][i] == 0 && D[i][3] == 0;
			if (!z) c.failk(key<T>(DN[k], "homogeneous-part-zero"), "%s(%s,%s): last row/column of a derivative must be 0", DN[k], fstr(a).c_str(), fstr(w).c_str());
		}
	}
	{
		glm::mat<2, 2, T> o2 = glm::orientate2(a);
		R cs = cosl((R)a), sn = sinl((R)a);
		R want[2][2] = {{cs, -sn}, {sn, cs}};
		R worst = 0;
		for (int i = 0; i < 2; ++i) for (int j = 0; j < 2; ++j) { R e = rabs((R)o2[j][i] - want[i][j]); worst = rmax(worst, e == 0 ? 0 : e / (4 * eps * rabs(want[i][j]) + TINY<T>())); }
		c.metric("orientate2 entry err/tol", (double)rmin(worst, 1e30L));
		if (!(worst <= 1)) c.failk(key<T>("orientate2", "reference-rotation"), "orientate2(%s)=cols[(%s,%s),(%s,%s)]", fstr(a).c_str(), fstr(o2[0][0]).c_str(), fstr(o2[0][1]).c_str(), fstr(o2[1][0]).c_str(), fstr(o2[1][1]).c_str());
		glm::mat<3, 3, T> o3 = glm::orientate3(a);
		cmp("orientate3(angle)", glm::mat<4, 4, T>(o3), mcoord(2, (R)a), true, 4);
	}
	struct Two { const char* name; int k0, k1; glm::mat<4, 4, T> g, own; };
	Two two[6] = {
		{"eulerAngleXY", 0, 1, glm::eulerAngleXY(a, b), glm::eulerAngleX(a) * glm::eulerAngleY(b)}, {"eulerAngleYX", 1, 0, glm::eulerAngleYX(a, b), glm::eulerAngleY(a) * glm::eulerAngleX(b)},
		{"eulerAngleXZ", 0, 2, glm::eulerAngleXZ(a, b), glm::eulerAngleX(a) * glm::eulerAngleZ(b)}, {"eulerAngleZX", 2, 0, glm::eulerAngleZX(a, b), glm::eulerAngleZ(a) * glm::eulerAngleX(b)},
		{"eulerAngleYZ", 1, 2, glm::eulerAngleYZ(a, b), glm::eulerAngleY(a) * glm::eulerAngleZ(b)}, {"eulerAngleZY", 2, 1, glm::eulerAngleZY(a, b), glm::eulerAngleZ(a) * glm::eulerAngleY(b)}};
	for (auto& t : two) {
		M3 want = mmul(mcoord(t.k0, (R)a), mcoord(t.k1, (R)b));
		cmp(t.name, t.g, want, true, 8);
		// against GLM's own product of the single-axis factors: both sides are within 8 eps |entry| of the same real matrix
		R worst = 0;
		for (int i = 0; i < 3; ++i) for (int j = 0; j < 3; ++j) { R e = rabs((R)t.g[j][i] - (R)t.own[j][i]); worst = rmax(worst, e == 0 ? 0 : e / (16 * eps * rabs(want.m[i][j]) + TINY<T>())); }
		c.metric("two-axis builder vs product of single-axis factors err/tol", (double)rmin(worst, 1e30L));
		if (!(worst <= 1)) c.failk(key<T>(t.name, "product-of-single-axis-factors"), "%s(%s,%s)=%s but the product of the single-axis matrices is %s", t.name, fstr(a).c_str(), fstr(b).c_str(), mstr(m3_of(t.g)).c_str(), mstr(m3_of(t.own)).c_str());
	}
}
REG2(euler12, "euler-one-two-axis", 300000, 7500000,
     "angle pairs (0, k pi/2 +- 2 ulps, k pi/2 +- 1e-9..1e-3, +-1e-9..1e-1, uniform [-2pi,2pi], table values, uniform [-1000,1000]) and an angular velocity; eulerAngleX/Y/Z, derivedEulerAngleX/Y/Z, orientate2, orientate3(angle) and the six "
     "two-axis builders entry by entry against the long-double coordinate rotations (relative 4-8 eps per entry, homogeneous part exact) and against GLM's own product of the single-axis matrices; non-trivial = both angles have |sin| > 1e-3");

// =====================================================================================================================
// three-axis builders: the twelve eulerAngleABC, yawPitchRoll, orientate3(vec3), orientate4(vec3).
//   entry = sum of at most two products of at most three sin/cos values (each <= 1 ulp): absolute error <= ~17u; bound 32 eps.
struct Order { const char* name; int k[3]; bool proper; };
static const Order ORDERS[12] = {{"XYZ", {0, 1, 2}, false}, {"YXZ", {1, 0, 2}, false}, {"XZX", {0, 2, 0}, true}, {"XYX", {0, 1, 0}, true}, {"YXY", {1, 0, 1}, true}, {"YZY", {1, 2, 1}, true},
                                 {"ZYZ", {2, 1, 2}, true}, {"ZXZ", {2, 0, 2}, true}, {"XZY", {0, 2, 1}, false}, {"YZX", {1, 2, 0}, false}, {"ZYX", {2, 1, 0}, false}, {"ZXY", {2, 0, 1}, false}};
static const char* const BUILD_NAME[12] = {"eulerAngleXYZ", "eulerAngleYXZ", "eulerAngleXZX", "eulerAngleXYX", "eulerAngleYXY", "eulerAngleYZY", "eulerAngleZYZ", "eulerAngleZXZ", "eulerAngleXZY", "eulerAngleYZX", "eulerAngleZYX", "eulerAngleZXY"};
static const char* const EXTRACT_NAME[12] = {"extractEulerAngleXYZ", "extractEulerAngleYXZ", "extractEulerAngleXZX", "extractEulerAngleXYX", "extractEulerAngleYXY", "extractEulerAngleYZY", "extractEulerAngleZYZ", "extractEulerAngleZXZ", "extractEulerAngleXZY", "extractEulerAngleYZX", "extractEulerAngleZYX", "extractEulerAngleZXY"};

template <class T> static glm::mat<4, 4, T> build(int o, T a, T b, T cc) {
	switch (o) {
	case 0: return glm::eulerAngleXYZ(a, b, cc); case 1: return glm::eulerAngleYXZ(a, b, cc); case 2: return glm::eulerAngleXZX(a, b, cc); case 3: return glm::eulerAngleXYX(a, b, cc);
	case 4: return glm::eulerAngleYXY(a, b, cc); case 5: return glm::eulerAngleYZY(a, b, cc); case 6: return glm::eulerAngleZYZ(a, b, cc); case 7: return glm::eulerAngleZXZ(a, b, cc);
	case 8: return glm::eulerAngleXZY(a, b, cc); case 9: return glm::eulerAngleYZX(a, b, cc); case 10: return glm::eulerAngleZYX(a, b, cc); default: return glm::eulerAngleZXY(a, b, cc);
	}
}
template <class T> static void extract(int o, const glm::mat<4, 4, T>& m, T& a, T& b, T& cc) {
	switch (o) {
	case 0: glm::extractEulerAngleXYZ(m, a, b, cc); break; case 1: glm::extractEulerAngleYXZ(m, a, b, cc); break; case 2: glm::extractEulerAngleXZX(m, a, b, cc); break; case 3: glm::extractEulerAngleXYX(m, a, b, cc); break;
	case 4: glm::extractEulerAngleYXY(m, a, b, cc); break; case 5: glm::extractEulerAngleYZY(m, a, b, cc); break; case 6: glm::extractEulerAngleZYZ(m, a, b, cc); break; case 7: glm::extractEulerAngleZXZ(m, a, b, cc); break;
	case 8: glm::extractEulerAngleXZY(m, a, b, cc); break; case 9: glm::extractEulerAngleYZX(m, a, b, cc); break; case 10: glm::extractEulerAngleZYX(m, a, b, cc); break; default: glm::extractEulerAngleZXY(m, a, b, cc); break;
	}
}
template <class T> static glm::mat<4, 4, T> single(int k, T a) { return k == 0 ? glm::eulerAngleX(a) : (k == 1 ? glm::eulerAngleY(a) : glm::eulerAngleZ(a)); }
static inline M3 ref_product(const Order& o, R a, R b, R cc) { return mmul(mmul(mcoord(o.k[0], a), mcoord(o.k[1], b)), mcoord(o.k[2], cc)); }

// angle triple; one case in three puts the middle angle into a gimbal-lock neighbourhood (k pi/2 exactly rounded, +- ulps, +- 1e-9..1e-3)
template <class T> static int gen_triple(pbt::Ctx& c, T* t) {
	int c0, c1, c2;
	t[0] = gen_angle<T>(c, &c0); t[1] = gen_angle<T>(c, &c1); t[2] = gen_angle<T>(c, &c2);
	if (c.draw(3) == 0) {
		R base = (R)c.range(-2, 2) * PI / 2;
		int k = (int)c.draw(3);
		if (k == 0) { t[1] = (T)base; c1 = AC_QUARTER; }
		else if (k == 1) { T x = (T)base; if (x != 0) x = fp::from_ordered<T>(fp::ordered(x) + (int)c.range(0, 4) - 2); t[1] = x; c1 = AC_QUARTER; }
		else { t[1] = (T)(base + (c.coin() ? -1 : 1) * (R)c.loguniform(1e-9, 1e-3)); c1 = AC_NEARQUARTER; }
	}
	return c1;
}

template <class T> static void euler3(pbt::Ctx& c) {
	T t[3];
	int mc = gen_triple<T>(c, t);
	c.cls(mc == AC_QUARTER ? "middle angle: k pi/2 (+- 2 ulps)" : (mc == AC_NEARQUARTER ? "middle angle: k pi/2 +- 1e-9..1e-3" : "middle angle: generic"));
	if (c.verbose) c.logf("angles (%s,%s,%s)", fstr(t[0]).c_str(), fstr(t[1]).c_str(), fstr(t[2]).c_str());
	const R eps = EPS<T>();
	bool nt = true;
	for (int i = 0; i < 3; ++i) nt = nt && std::fabs(std::sin((double)t[i])) > 1e-3 && std::fabs(std::cos((double)t[i])) > 1e-3;
	if (nt) c.nontrivial();  // every factor is a genuine rotation: a wrong sign, index or factor order changes some entry by more than the bound
	for (int o = 0; o < 12; ++o) {
		const Order& od = ORDERS[o];
		glm::mat<4, 4, T> g = build<T>(o, t[0], t[1], t[2]);
		M3 gm = m3_of(g), want = ref_product(od, (R)t[0], (R)t[1], (R)t[2]);
		R e = mmaxdiff(gm, want);
		if (!within(c, "eulerAngleABC vs reference product err/tol", e, 32 * eps))
			c.failk(key<T>(BUILD_NAME[o], "reference-product"), "%s(%s,%s,%s)=%s, R%c R%c R%c = %s (err %.3Lg)", BUILD_NAME[o], fstr(t[0]).c_str(), fstr(t[1]).c_str(), fstr(t[2]).c_str(), mstr(gm).c_str(), od.name[0], od.name[1], od.name[2], mstr(want).c_str(), e);
		if (!homogeneous_ok(g)) c.failk(key<T>(BUILD_NAME[o], "homogeneous-part"), "%s(%s,%s,%s): last row/column is not (0,0,0,1)", BUILD_NAME[o], fstr(t[0]).c_str(), fstr(t[1]).c_str(), fstr(t[2]).c_str());
		glm::mat<4, 4, T> own = single<T>(od.k[0], t[0]) * single<T>(od.k[1], t[1]) * single<T>(od.k[2], t[2]);
		R e2 = maxdiff4(g, own);
		if (!within(c, "eulerAngleABC vs product of single-axis factors err/tol", e2, 48 * eps))
			c.failk(key<T>(BUILD_NAME[o], "product-of-single-axis-factors"), "%s(%s,%s,%s)=%s but eulerAngle%c*eulerAngle%c*eulerAngle%c=%s (err %.3Lg)", BUILD_NAME[o], fstr(t[0]).c_str(), fstr(t[1]).c_str(), fstr(t[2]).c_str(), mstr(gm).c_str(), od.name[0], od.name[1], od.name[2], mstr(m3_of(own)).c_str(), e2);
		else if (e2 == 0) c.cls("builder bit-identical (as values) to the product of its factors");
	}
	{  // yawPitchRoll(yaw,pitch,roll) = Y X Z; orientate3/4(vec3 a) = yawPitchRoll(a.z, a.x, a.y)
		M3 want = ref_product(ORDERS[1], (R)t[0], (R)t[1], (R)t[2]);
		glm::mat<4, 4, T> g = glm::yawPitchRoll(t[0], t[1], t[2]);
		R e = mmaxdiff(m3_of(g), want);
		if (!within(c, "yawPitchRoll vs reference Y X Z err/tol", e, 32 * eps) || !homogeneous_ok(g))
			c.failk(key<T>("yawPitchRoll", "reference-product"), "yawPitchRoll(%s,%s,%s)=%s, Ry Rx Rz = %s (err %.3Lg)", fstr(t[0]).c_str(), fstr(t[1]).c_str(), fstr(t[2]).c_str(), mstr(m3_of(g)).c_str(), mstr(want).c_str(), e);
		glm::vec<3, T> a = GV(t);
		M3 want2 = ref_product(ORDERS[1], (R)t[2], (R)t[0], (R)t[1]);
		glm::mat<4, 4, T> o4 = glm::orientate4(a);
		glm::mat<3, 3, T> o3 = glm::orientate3(a);
		R e4 = mmaxdiff(m3_of(o4), want2), e3 = mmaxdiff(m3_of(o3), want2);
		if (!within(c, "orientate4 vs reference err/tol", e4, 32 * eps) || !homogeneous_ok(o4))
			c.failk(key<T>("orientate4", "reference-product"), "orientate4((%s,%s,%s))=%s, Ry(z) Rx(x) Rz(y) = %s (err %.3Lg)", fstr(t[0]).c_str(), fstr(t[1]).c_str(), fstr(t[2]).c_str(), mstr(m3_of(o4)).c_str(), mstr(want2).c_str(), e4);
		if (!within(c, "orientate3(vec3) vs reference err/tol", e3, 32 * eps))
			c.failk(key<T>("orientate3(vec3)", "reference-product"), "orientate3((%s,%s,%s))=%s, Ry(z) Rx(x) Rz(y) = %s (err %.3Lg)", fstr(t[0]).c_str(), fstr(t[1]).c_str(), fstr(t[2]).c_str(), mstr(m3_of(o3)).c_str(), mstr(want2).c_str(), e3);
	}
}
REG2(euler3, "euler-three-axis", 150000, 4000000,
     "angle triples from the angle generator, one third with the middle angle in a gimbal-lock neighbourhood (k pi/2 rounded, +- 2 ulps, +- 1e-9..1e-3); each case runs all twelve eulerAngleABC, yawPitchRoll, orientate3(vec3), orientate4: "
     "entries against the long-double product Ra Rb Rc (32 eps, homogeneous part exact) and against GLM's own eulerAngleA*eulerAngleB*eulerAngleC (48 eps); non-trivial = |sin| and |cos| of all three angles exceed 1e-3");

// =====================================================================================================================
// extractEulerAngleABC: the extracted angles must rebuild the matrix they were extracted from (angles themselves are not compared: many
// triples are admissible, and at gimbal lock only a sum or difference is determined).
//   Mike Day's scheme computes the third angle from the first, so the rebuilt matrix is accurate to a few u even when the first angle is
//   ill-determined; the input's own deviation from orthogonality (measured in long double) is added to the bound.
template <class T> static void eulerextract(pbt::Ctx& c) {
	const R eps = EPS<T>();
	int src = (int)c.draw(4);
	T t[3] = {0, 0, 0};
	T q[4] = {1, 0, 0, 0};
	int mc = 0, qc = 0;
	if (src <= 2) mc = gen_triple<T>(c, t); else qc = gen_unit_quat<T>(c, q);
	c.cls(src <= 2 ? (mc == AC_QUARTER ? "source: eulerAngleABC, middle angle k pi/2 (+- 2 ulps)" : (mc == AC_NEARQUARTER ? "source: eulerAngleABC, middle angle k pi/2 +- 1e-9..1e-3" : "source: eulerAngleABC, generic middle angle")) : "source: mat4_cast(unit quaternion)");
	if (src > 2) c.cls(QC_NAME[qc]);
	if (c.verbose) { if (src <= 2) c.logf("angles (%s,%s,%s)", fstr(t[0]).c_str(), fstr(t[1]).c_str(), fstr(t[2]).c_str()); else c.logf("matrix of q=wxyz%s (%s)", astr(q, 4).c_str(), QC_KEY[qc]); }
	bool nt = true;
	if (src <= 2) { for (int i = 0; i < 3; ++i) nt = nt && std::fabs(std::sin((double)t[i])) > 1e-3; }
	else { int nz = 0; for (int i = 0; i < 4; ++i) nz += std::fabs(q[i]) > 1e-3; nt = nz >= 3; }
	if (nt) c.nontrivial();
	for (int o = 0; o < 12; ++o) {
		glm::mat<4, 4, T> M = src <= 2 ? build<T>(o, t[0], t[1], t[2]) : glm::mat4_cast(GQ(q));
		M3 rm = m3_of(M);
		const R defect = mortho_defect(rm);
		T e0, e1, e2;
		extract<T>(o, M, e0, e1, e2);
		if (!(fp::is_finite(e0) && fp::is_finite(e1) && fp::is_finite(e2))) {
			c.failk(key<T>(EXTRACT_NAME[o], "finite", src <= 2 ? "from-builder" : "from-quaternion"), "%s returned (%s,%s,%s) for %s", EXTRACT_NAME[o], fstr(e0).c_str(), fstr(e1).c_str(), fstr(e2).c_str(), mstr(rm).c_str());
			continue;
		}
		glm::mat<4, 4, T> B = build<T>(o, e0, e1, e2);
		R e = mmaxdiff(m3_of(B), rm), tol = 64 * eps + 4 * defect;
		if (!within(c, "eulerAngleABC(extractEulerAngleABC(M)) vs M err/tol", e, tol))
			c.failk(key<T>(EXTRACT_NAME[o], "rebuilds-matrix", src <= 2 ? (mc == AC_UNIFORM2PI || mc == AC_NICE || mc == AC_BIG || mc == AC_SMALL || mc == AC_ZERO ? "from-builder" : "from-builder-gimbal-neighbourhood") : "from-quaternion"),
			        "%s(M)=(%s,%s,%s) rebuilds %s, M=%s (err %.3Lg, tol %.3Lg)", EXTRACT_NAME[o], fstr(e0).c_str(), fstr(e1).c_str(), fstr(e2).c_str(), mstr(m3_of(B)).c_str(), mstr(rm).c_str(), e, tol);
		// the same through the reference builder: the angles describe M without help from GLM's builder
		M3 RB = ref_product(ORDERS[o], (R)e0, (R)e1, (R)e2);
		R er = mmaxdiff(RB, rm);
		if (!within(c, "Ra Rb Rc(extracted angles) vs M err/tol", er, tol))
			c.failk(key<T>(EXTRACT_NAME[o], "angles-describe-matrix", src <= 2 ? "from-builder" : "from-quaternion"), "%s(M)=(%s,%s,%s): R%c R%c R%c of these angles is %s, M=%s (err %.3Lg, tol %.3Lg)", EXTRACT_NAME[o], fstr(e0).c_str(), fstr(e1).c_str(), fstr(e2).c_str(),
			        ORDERS[o].name[0], ORDERS[o].name[1], ORDERS[o].name[2], mstr(RB).c_str(), mstr(rm).c_str(), er, tol);
	}
}
REG2(eulerextract, "euler-extract", 150000, 4000000,
     "rotation matrices built by eulerAngleABC from generated triples (one third with the middle angle at k pi/2 rounded, +- 2 ulps, +- 1e-9..1e-3: both gimbal conventions) and, one case in four, mat4_cast of a unit quaternion of every class; "
     "each case runs all twelve extractEulerAngleABC: the extracted angles must be finite and rebuild the input matrix through eulerAngleABC and through the long-double product (64 eps + 4 x orthogonality defect of the input); "
     "non-trivial = all three source angles have |sin| > 1e-3 (quaternion source: at least three components above 1e-3)");

// =====================================================================================================================
// gtx/rotate_vector: rotate(vec2,a), rotate(vec3|vec4,a,normal), rotateX/Y/Z(vec3|vec4,a), orientation(Normal,Up).
//   rotateX/Y/Z and the 2D rotate: two products and a sum per component: <= ~6u (|v_i| + |v_j|).
//   rotate(v,a,n) = mat3(rotate(a,n)) v with the axis normalised inside: Rodrigues' matrix entries <= ~8u, times v: bound 32 eps |v|.
//   orientation(N,Up) = rotate(acos(N.Up), Up x N): maps Up to N; acos and the axis are accurate to ~u/sin(angle) only.
template <class T> static void rotatevec(pbt::Ctx& c) {
	int ac;
	T a = gen_angle<T>(c, &ac);
	T v[3], n[3];
	gen_vec3<T>(c, v, nullptr, 8);
	gen_unit_vec3<T>(c, n);
	bool scaled = c.coin();
	if (scaled) { T f = (T)c.loguniform(0.2, 5.0); for (int i = 0; i < 3; ++i) n[i] *= f; }
	T w4 = c.coin() ? T(1) : fp::gen_moderate<T>(c, 4, 4);
	c.cls(AC_NAME[ac]); c.cls(scaled ? "axis: non-unit" : "axis: unit");
	if (c.verbose) c.logf("v=%s w=%s angle=%s axis=%s", astr(v, 3).c_str(), fstr(w4).c_str(), fstr(a).c_str(), astr(n, 3).c_str());
	const R eps = EPS<T>();
	V3 rv = v3_of_arr(v), rn = vunit(v3_of_arr(n));
	const R vn = vnorm(rv);
	if (std::fabs(std::sin((double)a)) > 1e-3 && vnorm(vcross(rn, rv)) > 1e-3L * vn) c.nontrivial();
	glm::vec<3, T> V = GV(v), N = GV(n);
	auto cmp = [&](const char* fn, V3 got, V3 want, R tol) {
		R e = vmaxabs(vsub(got, want));
		if (!within(c, "gtx rotate* err/tol", e, tol))
			c.failk(key<T>(fn, "reference-rotation"), "%s: v=%s angle=%s axis=%s gives %s, reference %s (err %.3Lg, tol %.3Lg)", fn, astr(v, 3).c_str(), fstr(a).c_str(), astr(n, 3).c_str(), vstr(got).c_str(), vstr(want).c_str(), e, tol);
	};
	const R tol = 32 * eps * vn + TINY<T>();
	for (int k = 0; k < 3; ++k) {
		V3 want = mvec(mcoord(k, (R)a), rv);
		glm::vec<3, T> g3 = k == 0 ? glm::rotateX(V, a) : (k == 1 ? glm::rotateY(V, a) : glm::rotateZ(V, a));
		glm::vec<4, T> g4 = k == 0 ? glm::rotateX(glm::vec<4, T>(V, w4), a) : (k == 1 ? glm::rotateY(glm::vec<4, T>(V, w4), a) : glm::rotateZ(glm::vec<4, T>(V, w4), a));
		static const char* const N3[] = {"rotateX(vec3)", "rotateY(vec3)", "rotateZ(vec3)"};
		static const char* const N4[] = {"rotateX(vec4)", "rotateY(vec4)", "rotateZ(vec4)"};
		cmp(N3[k], v3_of(g3), want, 16 * eps * vn + TINY<T>());
		cmp(N4[k], v3_of(g4), want, 16 * eps * vn + TINY<T>());
		if (!fp::same_bits(g4.w, w4)) c.failk(key<T>(N4[k], "w-preserved"), "%s changed w from %s to %s", N4[k], fstr(w4).c_str(), fstr(g4.w).c_str());
		T comp = k == 0 ? g3.x : (k == 1 ? g3.y : g3.z);
		if (!fp::same_bits(comp, v[k])) c.failk(key<T>(N3[k], "axis-component-preserved"), "%s changed the component along its axis from %s to %s", N3[k], fstr(v[k]).c_str(), fstr(comp).c_str());
	}
	{
		glm::vec<2, T> v2; v2.x = v[0]; v2.y = v[1];
		glm::vec<2, T> g2 = glm::rotate(v2, a);
		R cs = cosl((R)a), sn = sinl((R)a);
		V3 want{rv.x * cs - rv.y * sn, rv.x * sn + rv.y * cs, 0}, got{(R)g2.x, (R)g2.y, 0};
		cmp("rotate(vec2)", got, want, 16 * eps * sqrtl(rv.x * rv.x + rv.y * rv.y) + TINY<T>());
	}
	{
		V3 want = mvec(mrodrigues(rn, (R)a), rv);
		cmp("rotate(vec3,angle,axis)", v3_of(glm::rotate(V, a, N)), want, tol);
		glm::vec<4, T> g4 = glm::rotate(glm::vec<4, T>(V, w4), a, N);
		cmp("rotate(vec4,angle,axis)", v3_of(g4), want, tol);
		if (!fp::same_value(g4.w, w4)) c.failk(key<T>("rotate(vec4,angle,axis)", "w-preserved"), "rotate(vec4) changed w from %s to %s", fstr(w4).c_str(), fstr(g4.w).c_str());
	}
	{  // orientation(Normal, Up): unit vectors; identity when they agree within eps per component
		T up[3], nm[3];
		gen_unit_vec3<T>(c, up);
		V3 ru = v3_of_arr(up), t;
		int rel = (int)c.draw(6);
		if (rel == 0) t = ru;
		else if (rel == 1) { V3 p = vcross(ru, gen_dir(c)); if (vnorm(p) < 1e-6L) p = vcross(ru, V3{0.3L, -0.5L, 0.8L}); R th = c.loguniform(1e-9, 1e-1); t = vadd(vscale(ru, cosl(th)), vscale(vunit(p), sinl(th))); }
		else t = gen_dir(c);
		t = vunit(t);
		nm[0] = (T)t.x; nm[1] = (T)t.y; nm[2] = (T)t.z;
		V3 rnm = vunit(v3_of_arr(nm)), uu = vunit(ru);
		R sn = vnorm(vcross(uu, rnm)), dif = vnorm(vsub(uu, rnm));
		glm::mat<4, 4, T> O = glm::orientation(GV(nm), GV(up));
		M3 om = m3_of(O);
		V3 img = mvec(om, uu);
		R tolo = sn > 0 ? 16 * eps * (1 + 1 / sn) : 1;
		const bool same = nm[0] == up[0] && nm[1] == up[1] && nm[2] == up[2];
		bool anynan = false;
		for (int i = 0; i < 3; ++i) for (int j = 0; j < 3; ++j) anynan = anynan || !(om.m[i][j] == om.m[i][j]);
		c.cls(same ? "orientation: Normal == Up (identity expected)" : (tolo >= 0.5L ? "orientation: (anti)parallel to within rounding, only NaN-freedom on the parallel side checked" : "orientation: general"));
		if (c.verbose) c.logf("orientation: Normal=%s Up=%s", astr(nm, 3).c_str(), astr(up, 3).c_str());
		(void)dif;
		if (same) {
			R e = mmaxdiff(om, midentity());
			if (!within(c, "orientation(N==Up) vs identity err/tol", e, 64 * eps)) c.failk(key<T>("orientation", "identity-when-equal"), "orientation(N=%s,Up=%s)=%s", astr(nm, 3).c_str(), astr(up, 3).c_str(), mstr(om).c_str());
		} else if (anynan) {
			// Up and Normal that are unit to within rounding are inside the domain; a NaN matrix is never a rotation. (Exactly antiparallel vectors have no
			// unique answer and a zero cross product: that side is not judged.)
			if (vdot(uu, rnm) > 0) c.failk(key<T>("orientation", "nan", sn < 1e-2L ? "nearly-parallel" : "general"), "orientation(N=%s,Up=%s)=%s (angle between them %.3Lg rad)", astr(nm, 3).c_str(), astr(up, 3).c_str(), mstr(om).c_str(), asinl(rmin(sn, 1)));
			else c.cls("orientation: NaN for (nearly) antiparallel vectors (not judged)");
		} else if (tolo < 0.5L) {
			R e = vmaxabs(vsub(img, rnm));
			if (!within(c, "orientation maps Up to Normal err/tol", e, tolo))
				c.failk(key<T>("orientation", "maps-up-to-normal"), "orientation(N=%s,Up=%s) maps Up to %s (err %.3Lg, tol %.3Lg)", astr(nm, 3).c_str(), astr(up, 3).c_str(), vstr(img).c_str(), e, tolo);
			R od = mortho_defect(om);
			if (!within(c, "orientation orthogonality err/tol", od, 64 * eps)) c.failk(key<T>("orientation", "orthogonal"), "orientation(N=%s,Up=%s)=%s is not orthogonal (defect %.3Lg)", astr(nm, 3).c_str(), astr(up, 3).c_str(), mstr(om).c_str(), od);
		}
	}
}
REG2(rotatevec, "gtx-rotate-vector", 300000, 7500000,
     "vec3/vec4/vec2 (mixed magnitude, small ints, axis-aligned, unit), an angle from the angle generator and a unit or non-unit axis (coordinate axis exactly / within 1e-9..1e-2 / random); rotateX/Y/Z, the 2D rotate and "
     "rotate(v,angle,axis) against the long-double coordinate rotation resp. Rodrigues' formula with the normalised axis; orientation(Normal,Up) must map Up onto Normal with an orthogonal matrix (conditioning 1/sin of their angle, "
     "identity when they agree); non-trivial = |sin(angle)| > 1e-3 and v not along the axis");
