// C12 (part 2 of 2) — the gtx helpers named by the property: norm (length2, distance2, l1/l2/lMax/lx norms), projection, perpendicular,
// orthonormalize, vector_angle (angle, orientedAngle 2D/3D), closest_point, normal (triangleNormal), exterior_product (2D cross),
// mixed_product. Oracle: the defining formula in long double (engine/ref/refgeom.hpp) with the forward-error bound of the documented
// computation (x8 margin, conditioning-aware: cancellation and near-dependence weaken the bound), plus the Euclidean identities
// (proj + perp = v, perp orthogonal to n, orthonormal columns, closest point not beaten by any sampled point of the segment) evaluated in
// long double on GLM's own results. main() and the core functions are in C12_geometric.cpp.
#include "fp.hpp"
#include "ref/refgeom.hpp"
#include <glm/glm.hpp>
#include <glm/geometric.hpp>
#include <glm/gtx/norm.hpp>
#include <glm/gtx/projection.hpp>
#include <glm/gtx/perpendicular.hpp>
#include <glm/gtx/orthonormalize.hpp>
#include <glm/gtx/vector_angle.hpp>
#include <glm/gtx/closest_point.hpp>
#include <glm/gtx/normal.hpp>
#include <glm/gtx/exterior_product.hpp>
#include <glm/gtx/mixed_product.hpp>

using namespace refgeom;

template <class T, int L> static glm::vec<L, T> G(const T* v) { glm::vec<L, T> r(0); for (int i = 0; i < L; ++i) r[i] = v[i]; return r; }
template <class T, int L> static void X(const glm::vec<L, T>& g, T* v) { for (int i = 0; i < 4; ++i) v[i] = i < L ? g[i] : T(0); }
static std::string key(const char* fn, int L, const char* what) { return std::string(fn) + (L ? "/vec" + std::to_string(L) : std::string("/scalar")) + "/" + what; }
static inline bool within(pbt::Ctx& c, const char* metric, R err, R tol) { R r = err == 0 ? 0 : err / tol; c.metric(metric, r < 1e30L ? (double)r : 1e30); return err <= tol; }  // (NaN/inf error: finite metric, check fails)
static const R PI_R = 3.14159265358979323846264338327950288L;
#define DISPATCH_L(fn) switch (c.draw(4)) { case 0: fn<T, 3>(c); break; case 1: fn<T, 2>(c); break; case 2: fn<T, 4>(c); break; default: fn<T, 1>(c); break; }
#define REG2(fn, name, q, t, rule) \
	static void fn##_f(pbt::Ctx& c) { fn<float>(c); } PBT_RANDOM(name "/float", fn##_f, q, t, rule); \
	static void fn##_d(pbt::Ctx& c) { fn<double>(c); } PBT_RANDOM(name "/double", fn##_d, q, t, rule)

// =============================================================================================
// gtx/norm: length2 = dot(v,v), distance2 = length2(p0 - p1) (vec1..4 + scalar)
template <class T, int L> static void norm2_L(pbt::Ctx& c) {
	T a[4], b[4];
	int rel = gen_pair<T>(c, L, a, b, 20);
	c.cls(REL_NAME[rel]);
	if (c.verbose) c.logf("L=%d a=%s b=%s (%s)", L, vstr(a, L).c_str(), vstr(b, L).c_str(), REL_KEY[rel]);
	R ra[4], rb[4], rd[4]; lift(a, ra); lift(b, rb); sub(ra, rb, rd, L);
	const R u = U<T>();
	glm::vec<L, T> A = G<T, L>(a), B = G<T, L>(b);
	if (L >= 2 ? (distinct_mags(a, L) && nonzeros(b, L) >= 2 && rel != REL_EQUAL) : (a[0] != b[0])) c.nontrivial();
	T g = glm::length2(A);
	if (!within(c, "length2 err/tol", rabs((R)g - norm2(ra, L)), 8 * L * u * norm2(ra, L) + TINY<T>()))
		c.failk(key("length2", L, "value"), "length2(%s)=%.17g, expected %.17Lg", vstr(a, L).c_str(), (double)g, norm2(ra, L));
	if (!fp::same_value(g, glm::dot(A, A))) c.failk(key("length2", L, "dot-v-v"), "length2(%s)=%.17g but dot(v,v)=%.17g", vstr(a, L).c_str(), (double)g, (double)glm::dot(A, A));
	{ T l = glm::length(A); R rl = (R)l; if (!within(c, "length^2 vs length2 err/tol", rabs(rl * rl - (R)g), 8 * 2 * u * (R)g + TINY<T>())) c.failk(key("length2", L, "square-of-length"), "length(%s)^2=%.17Lg but length2=%.17g", vstr(a, L).c_str(), rl * rl, (double)g); }
	T g2 = glm::distance2(A, B);
	if (!within(c, "distance2 err/tol", rabs((R)g2 - norm2(rd, L)), 8 * (L + 2) * u * norm2(rd, L) + TINY<T>()))
		c.failk(key("distance2", L, "value"), "distance2(%s,%s)=%.17g, expected %.17Lg", vstr(a, L).c_str(), vstr(b, L).c_str(), (double)g2, norm2(rd, L));
	T df[4] = {0, 0, 0, 0}; for (int i = 0; i < L; ++i) df[i] = a[i] - b[i];
	T l2 = glm::length2(G<T, L>(df));
	if (!fp::same_value(g2, l2)) c.failk(key("distance2", L, "length2-of-difference"), "distance2(a,b)=%.17g but length2(a-b)=%.17g for a=%s b=%s", (double)g2, (double)l2, vstr(a, L).c_str(), vstr(b, L).c_str());
	if (L == 1) {
		T x = a[0], y = b[0], s;
		if (!fp::same_value(s = glm::length2(x), x * x)) c.failk(key("length2", 0, "square"), "length2(%.17g)=%.17g", (double)x, (double)s);
		if (!fp::same_value(s = glm::distance2(x, y), (x - y) * (x - y))) c.failk(key("distance2", 0, "squared-difference"), "distance2(%.17g,%.17g)=%.17g, expected %.17g", (double)x, (double)y, (double)s, (double)((x - y) * (x - y)));
	}
}
template <class T> static void norm2p(pbt::Ctx& c) { DISPATCH_L(norm2_L) }
REG2(norm2p, "length2_distance2", 1500000, 75000000,
     "pairs of non-zero vectors L=1..4 (+ scalar overloads), magnitudes 2^-20..2^20, every pair relation; length2 against sum of squares and dot(v,v) and length^2, distance2 against the squared norm of the difference and length2(a-b); "
     "non-trivial = a has pairwise distinct non-zero |components|, b at least two non-zero components, a != b");

// gtx/norm on vec3: l1Norm, l2Norm, lMaxNorm, lxNorm, one- and two-argument forms.
//   lxNorm(v,D) = pow(sum pow(|v_i|,D), 1/D): pow <= 1 ulp (2u) each, the rounded exponent 1/D contributes |ln s| u / D:
//   relative error <= u (2 + (4 + |ln s|)/D) (one-argument), u (3 + (4 + |ln s|)/D) (two-argument; each difference is rounded once and raised to D)
template <class T> static void lnorms(pbt::Ctx& c) {
	T a[4], b[4];
	int rel = gen_pair<T>(c, 3, a, b, 9);
	unsigned D = (unsigned)c.range(1, 8);
	c.cls(REL_NAME[rel]);
	if (c.verbose) c.logf("a=%s b=%s Depth=%u (%s)", vstr(a, 3).c_str(), vstr(b, 3).c_str(), D, REL_KEY[rel]);
	R ra[4], rb[4], rd[4]; lift(a, ra); lift(b, rb); sub(rb, ra, rd, 3);
	const R u = U<T>();
	glm::vec<3, T> A = G<T, 3>(a), B = G<T, 3>(b);
	if (distinct_mags(a, 3) && rel != REL_EQUAL && rd[0] != 0 && rd[1] != 0 && rd[2] != 0 && rabs(rd[0]) != rabs(rd[1]) && rabs(rd[1]) != rabs(rd[2]) && rabs(rd[0]) != rabs(rd[2])) c.nontrivial();
	T g;
	R w = rabs(ra[0]) + rabs(ra[1]) + rabs(ra[2]);
	if (!within(c, "l1Norm(v) err/tol", rabs((R)(g = glm::l1Norm(A)) - w), 8 * 2 * u * w + TINY<T>())) c.failk(key("l1Norm", 3, "one-argument"), "l1Norm(%s)=%.17g, expected %.17Lg", vstr(a, 3).c_str(), (double)g, w);
	w = rabs(rd[0]) + rabs(rd[1]) + rabs(rd[2]);
	if (!within(c, "l1Norm(a,b) err/tol", rabs((R)(g = glm::l1Norm(A, B)) - w), 8 * 3 * u * w + TINY<T>())) c.failk(key("l1Norm", 3, "two-argument"), "l1Norm(%s,%s)=%.17g, expected %.17Lg", vstr(a, 3).c_str(), vstr(b, 3).c_str(), (double)g, w);
	w = norm(ra, 3);
	if (!within(c, "l2Norm(v) err/tol", rabs((R)(g = glm::l2Norm(A)) - w), 8 * 2.5L * u * w + TINY<T>())) c.failk(key("l2Norm", 3, "one-argument"), "l2Norm(%s)=%.17g, expected %.17Lg", vstr(a, 3).c_str(), (double)g, w);
	w = norm(rd, 3);
	if (!within(c, "l2Norm(a,b) err/tol", rabs((R)(g = glm::l2Norm(A, B)) - w), 8 * 3.5L * u * w + TINY<T>())) c.failk(key("l2Norm", 3, "two-argument"), "l2Norm(%s,%s)=%.17g, expected %.17Lg", vstr(a, 3).c_str(), vstr(b, 3).c_str(), (double)g, w);
	T m = std::max(std::fabs(a[0]), std::max(std::fabs(a[1]), std::fabs(a[2])));
	if (!fp::same_value(g = glm::lMaxNorm(A), m)) c.failk(key("lMaxNorm", 3, "one-argument"), "lMaxNorm(%s)=%.17g, expected %.17g", vstr(a, 3).c_str(), (double)g, (double)m);
	m = std::max(std::fabs(b[0] - a[0]), std::max(std::fabs(b[1] - a[1]), std::fabs(b[2] - a[2])));
	if (!fp::same_value(g = glm::lMaxNorm(A, B), m)) c.failk(key("lMaxNorm", 3, "two-argument"), "lMaxNorm(%s,%s)=%.17g, expected %.17g", vstr(a, 3).c_str(), vstr(b, 3).c_str(), (double)g, (double)m);
	R s = powl(rabs(ra[0]), D) + powl(rabs(ra[1]), D) + powl(rabs(ra[2]), D);
	w = powl(s, 1.0L / D);
	// the D-th powers of a tiny vector may underflow in T as well (seen once in 3e9 cases: an axis vector of magnitude 2^-19.4 at Depth 7)
	if (!(s > (R)std::numeric_limits<T>::min() / u)) c.cls("lxNorm(v): powers of the components underflow (not checked)");
	else if (!within(c, "lxNorm(v,D) err/tol", rabs((R)(g = glm::lxNorm(A, D)) - w), 8 * u * (2 + (4 + rabs(logl(s))) / D) * w + TINY<T>())) c.failk(key("lxNorm", 3, "one-argument"), "lxNorm(%s,%u)=%.17g, expected %.17Lg", vstr(a, 3).c_str(), D, (double)g, w);
	if (rd[0] != 0 || rd[1] != 0 || rd[2] != 0) {
		s = powl(rabs(rd[0]), D) + powl(rabs(rd[1]), D) + powl(rabs(rd[2]), D);
		w = powl(s, 1.0L / D);
		// the D-th powers of tiny differences (nearly equal a, b) may underflow in T: outside the quantifier ("neither overflow nor underflow"), counted
		if (!(s > (R)std::numeric_limits<T>::min() / u)) c.cls("lxNorm(a,b): powers of the differences underflow (not checked)");
		else if (!within(c, "lxNorm(a,b,D) err/tol", rabs((R)(g = glm::lxNorm(A, B, D)) - w), 8 * u * (3 + (4 + rabs(logl(s))) / D) * w + TINY<T>())) c.failk(key("lxNorm", 3, "two-argument"), "lxNorm(%s,%s,%u)=%.17g, expected %.17Lg", vstr(a, 3).c_str(), vstr(b, 3).c_str(), D, (double)g, w);
	}
}
REG2(lnorms, "l1_l2_lMax_lx_norms", 1500000, 75000000,
     "pairs of non-zero vec3, magnitudes 2^-9..2^9 (so |x|^Depth stays normal for Depth<=8), Depth 1..8, every pair relation; sum of |.|, Euclidean norm, max |.| (exact) and (sum |.|^D)^(1/D) in long double, "
     "for v and for b-a; non-trivial = pairwise distinct non-zero |components| of a and of b-a");

// =============================================================================================
// exterior_product (2D cross), mixed_product, triangleNormal
template <class T> static void products(pbt::Ctx& c) {
	const R u = U<T>();
	{
		T a[4], b[4];
		int rel = gen_pair<T>(c, 2, a, b, 20);
		c.cls(REL_NAME[rel]);
		if (c.verbose) c.logf("2D a=%s b=%s (%s)", vstr(a, 2).c_str(), vstr(b, 2).c_str(), REL_KEY[rel]);
		R ra[4], rb[4]; lift(a, ra); lift(b, rb);
		R w = ra[0] * rb[1] - rb[0] * ra[1], sc = rabs(ra[0] * rb[1]) + rabs(rb[0] * ra[1]);
		T g = glm::cross(G<T, 2>(a), G<T, 2>(b)), h = glm::cross(G<T, 2>(b), G<T, 2>(a)), z = glm::cross(G<T, 2>(a), G<T, 2>(a));
		if (!within(c, "cross2 err/tol", rabs((R)g - w), 8 * 2 * u * sc + TINY<T>())) c.failk(key("cross", 2, "determinant-formula"), "cross(%s,%s)=%.17g, x1*y2-x2*y1 = %.17Lg", vstr(a, 2).c_str(), vstr(b, 2).c_str(), (double)g, w);
		if (!fp::same_value(h, -g)) c.failk(key("cross", 2, "anti-commutative"), "cross(a,b)=%.17g, cross(b,a)=%.17g for a=%s b=%s", (double)g, (double)h, vstr(a, 2).c_str(), vstr(b, 2).c_str());
		if (z != 0) c.failk(key("cross", 2, "self"), "cross(a,a)=%.17g for a=%s", (double)z, vstr(a, 2).c_str());
	}
	T a[4], b[4], d[4];
	int rel = gen_pair<T>(c, 3, a, b, 10);
	int k3 = (int)c.draw(4);
	const char* c3;
	if (k3 == 0) { c3 = "third:in-plane(det~0)"; T s = fp::gen_moderate<T>(c, 2, 2), t = fp::gen_moderate<T>(c, 2, 2); for (int i = 0; i < 3; ++i) d[i] = s * a[i] + t * b[i]; d[3] = 0; if (is_zero(d, 3)) d[0] = 1; }
	else if (k3 == 1) { c3 = "third:rounded-cross(a,b)"; d[0] = a[1] * b[2] - a[2] * b[1]; d[1] = a[2] * b[0] - a[0] * b[2]; d[2] = a[0] * b[1] - a[1] * b[0]; d[3] = 0; if (is_zero(d, 3)) d[0] = 1; }
	else { c3 = "third:independent"; gen_vec<T>(c, 3, d, 10); }
	c.cls(c3);
	if (c.verbose) c.logf("3D v1=%s v2=%s v3=%s (%s, %s)", vstr(a, 3).c_str(), vstr(b, 3).c_str(), vstr(d, 3).c_str(), REL_KEY[rel], c3);
	R ra[4], rb[4], rc[4], x[4], s[4]; lift(a, ra); lift(b, rb); lift(d, rc); cross3(ra, rb, x); cross3_scale(ra, rb, s);
	glm::vec<3, T> A = G<T, 3>(a), B = G<T, 3>(b), C = G<T, 3>(d);
	if (distinct_mags(a, 3) && distinct_mags(b, 3) && distinct_mags(d, 3)) c.nontrivial();
	{
		// (a x b).c: cross components carry 2u s_i, the dot 3u sum|x_i c_i| (|x_i| <= s_i)
		R w = det3(ra, rb, rc), tol = TINY<T>();
		for (int i = 0; i < 3; ++i) tol += 8 * u * (2 * s[i] + 3 * (rabs(x[i]) + 2 * u * s[i])) * rabs(rc[i]);
		T g = glm::mixedProduct(A, B, C);
		if (!within(c, "mixedProduct err/tol", rabs((R)g - w), tol)) c.failk(key("mixedProduct", 3, "determinant"), "mixedProduct(%s,%s,%s)=%.17g, determinant %.17Lg (bound %.3Lg)", vstr(a, 3).c_str(), vstr(b, 3).c_str(), vstr(d, 3).c_str(), (double)g, w, tol);
		T h = glm::mixedProduct(B, A, C);
		if (!fp::same_value(h, -g)) c.failk(key("mixedProduct", 3, "antisymmetric"), "mixedProduct(v1,v2,v3)=%.17g but mixedProduct(v2,v1,v3)=%.17g", (double)g, (double)h);
	}
	{
		// triangleNormal(p1,p2,p3) = normalize(cross(p1-p2, p1-p3)): differences rounded once (u each), cross 2u s_i + 2u s_i, normalize 4.5u:
		// |n - n_ref| <= 4u |s| / |x| + 4.5u with s,x taken on the exact differences; near-degenerate triangles (bound > 1e-2) are counted as trivial
		R d1[4], d2[4], xx[4], ss[4]; sub(ra, rb, d1, 3); sub(ra, rc, d2, 3); cross3(d1, d2, xx); cross3_scale(d1, d2, ss);
		R nx = norm(xx, 3);
		R tol = nx > 0 ? 8 * u * (4 * norm(ss, 3) / nx + 4.5L) : 1;
		if (tol > 1e-2L) { c.cls("triangle degenerate or nearly (not checked)"); return; }
		// a tiny triangle whose cross product has a squared norm that underflows in T is outside the quantifier (the coverage-guided stage
		// steers uniform(-2,2) to coordinates like 1e-9 .. 1e-13): counted, not checked
		if (!(nx * nx > (R)std::numeric_limits<T>::min() / u)) { c.cls("triangle so small that |cross|^2 underflows (not checked)"); return; }
		c.cls("triangle non-degenerate");
		T g[4]; X<T, 3>(glm::triangleNormal(A, B, C), g);
		R rg[4], dv[4], nref[4]; lift(g, rg);
		for (int i = 0; i < 4; ++i) nref[i] = xx[i] / nx;
		sub(rg, nref, dv, 3);
		if (!within(c, "triangleNormal err/tol", norm(dv, 3), tol)) c.failk(key("triangleNormal", 3, "normalized-cross"), "triangleNormal(%s,%s,%s)=%s, expected (%.9Lg,%.9Lg,%.9Lg) (bound %.3Lg)", vstr(a, 3).c_str(), vstr(b, 3).c_str(), vstr(d, 3).c_str(), vstr(g, 3).c_str(), nref[0], nref[1], nref[2], tol);
		if (!within(c, "triangleNormal |len-1| err/tol", rabs(norm(rg, 3) - 1), 8 * 4.5L * u)) c.failk(key("triangleNormal", 3, "unit-length"), "triangleNormal(%s,%s,%s) has length %.17Lg", vstr(a, 3).c_str(), vstr(b, 3).c_str(), vstr(d, 3).c_str(), norm(rg, 3));
		if (!within(c, "triangleNormal.edge err/tol", rmax(rabs(dot(rg, d1, 3)) / norm(d1, 3), rabs(dot(rg, d2, 3)) / norm(d2, 3)), tol)) c.failk(key("triangleNormal", 3, "orthogonal-to-edges"), "triangleNormal(%s,%s,%s)=%s is not orthogonal to the edges", vstr(a, 3).c_str(), vstr(b, 3).c_str(), vstr(d, 3).c_str(), vstr(g, 3).c_str());
	}
}
REG2(products, "cross2_mixedProduct_triangleNormal", 1500000, 75000000,
     "a pair of vec2 (2^-20..2^20) and three vec3 (2^-10..2^10; third independent / in the plane of the first two (det ~ 0) / their rounded cross product), every pair relation; 2D cross = x1*y2-x2*y1 and antisymmetric, "
     "mixedProduct = determinant and antisymmetric, triangleNormal = unit, orthogonal to both edges, oriented as cross(p1-p2,p1-p3); non-trivial = the three vec3 have pairwise distinct non-zero |components|");

// Exact power-of-two rescaling of a generated vector (|k| <= 24 float / 300 double keeps every squared norm and product far from
// under/overflow): scale-invariant / scale-covariant helpers must treat short and long vectors like moderate ones.
template <class T> static bool scale_safe(const R* v, int L) {  // every non-zero component within 2^-50..2^50 (float) / 2^-450..2^450 (double)
	const R lo = ldexpl(1.0L, sizeof(T) == 4 ? -50 : -450), hi = ldexpl(1.0L, sizeof(T) == 4 ? 50 : 450);
	for (int i = 0; i < L; ++i) if (v[i] != 0 && !(rabs(v[i]) >= lo && rabs(v[i]) <= hi)) return false;
	return true;
}
template <class T> static int rescale(pbt::Ctx& c, T* v, int L, const char* what) {
	(void)what;
	if (c.draw(3) != 0) { c.cls("operand scale: 1"); return 0; }
	const int kmax = sizeof(T) == 4 ? 24 : 300;
	int k = (int)c.range(-kmax, kmax);
	T s = (T)std::ldexp(1.0, k);
	R w[4] = {0, 0, 0, 0};
	for (int i = 0; i < L; ++i) w[i] = (R)v[i] * (R)s;
	if (!scale_safe<T>(w, L)) { c.cls("operand scale: 1 (a generated component too small or large to rescale)"); return 0; }
	for (int i = 0; i < L; ++i) v[i] *= s;
	c.cls(k < -12 ? "operand scale: below 2^-12" : k > 12 ? "operand scale: above 2^12" : "operand scale: 2^-12..2^12");
	return k;
}

// =============================================================================================
// proj(x, n) = dot(x,n)/dot(n,n) * n ("a normal that doesn't need to be of unit length"), perp(x, n) = x - proj(x, n)
//   coefficient error <= L u S / nn + |c| (L+1) u, one more rounding for the product: |err_i| <= |n_i| (L u S/nn + |c| (L+2) u)
template <class T, int L> static void projperp_L(pbt::Ctx& c) {
	T x[4], n[4];
	int rel = gen_pair<T>(c, L, n, x, 8);
	c.cls(REL_NAME[rel]);
	rescale(c, n, L, "Normal"); rescale(c, x, L, "x");
	if (c.verbose) c.logf("L=%d x=%s Normal=%s (%s)", L, vstr(x, L).c_str(), vstr(n, L).c_str(), REL_KEY[rel]);
	R rx[4], rn[4]; lift(x, rx); lift(n, rn);
	const R u = U<T>(), d = dot(rx, rn, L), S = adot(rx, rn, L), nn = norm2(rn, L), co = d / nn;
	if (d != 0 && rabs(nn - 1) > 0.01L && (L == 1 || (distinct_mags(n, L) && nonzeros(x, L) >= 2))) c.nontrivial();
	if (d == 0) c.cls("dot(x,n)=0");
	T p[4], q[4];
	X<T, L>(glm::proj(G<T, L>(x), G<T, L>(n)), p); X<T, L>(glm::perp(G<T, L>(x), G<T, L>(n)), q);
	R rp[4], rq[4], tp[4], tq[4]; lift(p, rp); lift(q, rq);
	R on = 0;
	for (int i = 0; i < L; ++i) {
		R wp = co * rn[i], wq = rx[i] - wp;
		tp[i] = 8 * rabs(rn[i]) * (L * u * S / nn + rabs(co) * (L + 2) * u) + TINY<T>();
		tq[i] = tp[i] + 8 * u * (rabs(rx[i]) + rabs(wp));
		if (!within(c, "proj component err/tol", rabs(rp[i] - wp), tp[i])) c.failk(key("proj", L, "formula"), "proj(x=%s,n=%s)[%d]=%.17g, (x.n/n.n) n = %.17Lg", vstr(x, L).c_str(), vstr(n, L).c_str(), i, (double)p[i], wp);
		if (!within(c, "perp component err/tol", rabs(rq[i] - wq), tq[i])) c.failk(key("perp", L, "formula"), "perp(x=%s,n=%s)[%d]=%.17g, x - proj = %.17Lg", vstr(x, L).c_str(), vstr(n, L).c_str(), i, (double)q[i], wq);
		if (!within(c, "proj+perp-x err/tol", rabs(rp[i] + rq[i] - rx[i]), 8 * u * (rabs(rx[i]) + rabs(rp[i])) + TINY<T>())) c.failk(key("perp", L, "proj-plus-perp"), "proj+perp=%.17Lg but x[%d]=%.17g (x=%s n=%s)", rp[i] + rq[i], i, (double)x[i], vstr(x, L).c_str(), vstr(n, L).c_str());
		on += tq[i] * rabs(rn[i]);
	}
	if (!within(c, "perp.n err/tol", rabs(dot(rq, rn, L)), on)) c.failk(key("perp", L, "orthogonal-to-normal"), "perp(x=%s,n=%s)=%s, dot with n = %.6Lg exceeds the bound %.6Lg", vstr(x, L).c_str(), vstr(n, L).c_str(), vstr(q, L).c_str(), dot(rq, rn, L), on);
	for (int i = 0; i < L; ++i) for (int j = 0; j < i; ++j)
		if (!within(c, "proj parallel-to-n err/tol", rabs(rp[i] * rn[j] - rp[j] * rn[i]), tp[i] * rabs(rn[j]) + tp[j] * rabs(rn[i]))) c.failk(key("proj", L, "parallel-to-normal"), "proj(x=%s,n=%s)=%s is not a multiple of n", vstr(x, L).c_str(), vstr(n, L).c_str(), vstr(p, L).c_str());
	if (L == 1) {
		T ps = glm::proj(x[0], n[0]), qs = glm::perp(x[0], n[0]);
		if (!within(c, "proj scalar err/tol", rabs((R)ps - co * rn[0]), tp[0])) c.failk(key("proj", 0, "formula"), "proj(%.17g,%.17g)=%.17g, expected %.17Lg", (double)x[0], (double)n[0], (double)ps, co * rn[0]);
		if (!within(c, "perp scalar err/tol", rabs((R)qs - (rx[0] - co * rn[0])), tq[0])) c.failk(key("perp", 0, "formula"), "perp(%.17g,%.17g)=%.17g, expected %.17Lg", (double)x[0], (double)n[0], (double)qs, rx[0] - co * rn[0]);
	}
}
template <class T> static void projperp(pbt::Ctx& c) { DISPATCH_L(projperp_L) }
REG2(projperp, "proj_perp", 1500000, 75000000,
     "x and a non-zero, non-unit Normal in every pair relation, L=1..4 + scalar overloads, magnitudes 2^-8..2^8, each of x and Normal rescaled by 2^k (|k| <= 24 float / 300 double) in one case of three; proj against (x.n/n.n) n and parallel to n, perp against x - proj, proj + perp = x, perp orthogonal to n "
     "within the cancellation bound; non-trivial = x.n != 0, |n|^2 differs from 1 by more than 1%, n with pairwise distinct non-zero |components|, x with at least two non-zero components");

// =============================================================================================
// orthonormalize(x, y) = normalize(x - y dot(y,x)) (y unit) and orthonormalize(mat3) = Gram-Schmidt on the columns, in order.
//   The subtraction cancels when a column is nearly in the span of the previous ones: with rho_k = |c_k| / |w_k| (w_k the exact orthogonal
//   remainder) the direction errors are e0 <= 4.5u, e1 <= u (16 rho1 + 4.5), e2 <= u (rho2 (28 + 32 rho1) + 4.5); bound > 1e-2: trivial, not checked.
template <class T> static void orthop(pbt::Ctx& c) {
	const R u = U<T>();
	{
		T x[4], y[4];
		int rel = gen_pair<T>(c, 3, y, x, 6);
		make_unit(y, 3);
		c.cls(REL_NAME[rel]);
		rescale(c, x, 3, "x");
		if (c.verbose) c.logf("vec form: x=%s y=%s (%s)", vstr(x, 3).c_str(), vstr(y, 3).c_str(), REL_KEY[rel]);
		R rx[4], ry[4], w[4], ew[4]; lift(x, rx); lift(y, ry);
		R d = dot(ry, rx, 3), S = adot(ry, rx, 3), delta = norm2(ry, 3) - 1;
		axpy(-d, ry, rx, w, 3);
		for (int i = 0; i < 4; ++i) ew[i] = i < 3 ? u * (rabs(rx[i]) + 5 * rabs(ry[i]) * S) : 0;
		R nw = norm(w, 3), tol = nw > 0 ? 8 * (norm(ew, 3) / nw + 4.5L * u) : 1;
		if (tol > 1e-2L) c.cls("x (nearly) parallel to y (not checked)");
		else {
			c.cls("x not parallel to y");
			if (d != 0 && distinct_mags(y, 3)) c.nontrivial();
			T g[4]; X<T, 3>(glm::orthonormalize(G<T, 3>(x), G<T, 3>(y)), g);
			R rg[4], dv[4]; lift(g, rg);
			for (int i = 0; i < 4; ++i) dv[i] = i < 3 ? rg[i] - w[i] / nw : 0;
			if (!within(c, "orthonormalize(x,y) err/tol", norm(dv, 3), tol)) c.failk(key("orthonormalize", 3, "formula"), "orthonormalize(x=%s,y=%s)=%s, normalize(x - y dot(y,x)) = (%.9Lg,%.9Lg,%.9Lg)", vstr(x, 3).c_str(), vstr(y, 3).c_str(), vstr(g, 3).c_str(), w[0] / nw, w[1] / nw, w[2] / nw);
			if (!within(c, "orthonormalize(x,y) |len-1| err/tol", rabs(norm(rg, 3) - 1), 8 * 4.5L * u)) c.failk(key("orthonormalize", 3, "unit-length"), "orthonormalize(x=%s,y=%s) has length %.17Lg", vstr(x, 3).c_str(), vstr(y, 3).c_str(), norm(rg, 3));
			if (!within(c, "orthonormalize(x,y).y err/tol", rabs(dot(rg, ry, 3)), tol * norm(ry, 3) + 8 * rabs(d * delta) / nw)) c.failk(key("orthonormalize", 3, "orthogonal-to-y"), "orthonormalize(x=%s,y=%s)=%s: dot with y = %.6Lg", vstr(x, 3).c_str(), vstr(y, 3).c_str(), vstr(g, 3).c_str(), dot(rg, ry, 3));
			// same side as x: the exact result has cosine |w|/|x| with x
			R nxx = norm(rx, 3);
			if (!within(c, "orthonormalize(x,y).x err/tol", rabs(dot(rg, rx, 3) / nxx - nw / nxx), tol)) c.failk(key("orthonormalize", 3, "same-side-as-x"), "orthonormalize(x=%s,y=%s)=%s has cosine %.9Lg with x, expected %.9Lg", vstr(x, 3).c_str(), vstr(y, 3).c_str(), vstr(g, 3).c_str(), dot(rg, rx, 3) / nxx, nw / nxx);
		}
	}
	// matrix form
	T m[3][4];
	int mk = (int)c.draw(5);
	const char* mname;
	if (mk == 0) {  // scaled orthogonal frame from small integers: (a, b, a x b) with a.b = 0
		mname = "mat:orthogonal columns";
		for (int i = 0; i < 4; ++i) m[0][i] = m[1][i] = m[2][i] = 0;
		for (int i = 0; i < 3; ++i) m[0][i] = (T)c.range(-4, 4);
		if (is_zero(m[0], 3)) m[0][0] = 1;
		int i = (int)c.draw(3), j = (i + 1 + (int)c.draw(2)) % 3;
		m[1][i] = -m[0][j]; m[1][j] = m[0][i]; if (is_zero(m[1], 3)) m[1][i] = 1;
		m[2][0] = m[0][1] * m[1][2] - m[0][2] * m[1][1]; m[2][1] = m[0][2] * m[1][0] - m[0][0] * m[1][2]; m[2][2] = m[0][0] * m[1][1] - m[0][1] * m[1][0];
		if (c.coin()) for (int k = 0; k < 3; ++k) m[2][k] = -m[2][k];
	} else if (mk == 1) {  // third column nearly in the span of the first two
		mname = "mat:nearly dependent";
		gen_pair<T>(c, 3, m[0], m[1], 6);
		T s = fp::gen_moderate<T>(c, 2, 2), t = fp::gen_moderate<T>(c, 2, 2), e = (T)std::ldexp(1.0, -(int)c.range(1, 12));
		T w[4]; gen_vec<T>(c, 3, w, 2);
		for (int k = 0; k < 3; ++k) m[2][k] = s * m[0][k] + t * m[1][k] + e * w[k];
		m[2][3] = 0;
	} else { mname = "mat:independent columns"; gen_pair<T>(c, 3, m[0], m[1], 6); gen_vec<T>(c, 3, m[2], 6); }
	c.cls(mname);
	if (c.draw(3) == 0) { rescale(c, m[0], 3, "column0"); rescale(c, m[1], 3, "column1"); rescale(c, m[2], 3, "column2"); }
	if (c.verbose) c.logf("matrix columns %s %s %s (%s)", vstr(m[0], 3).c_str(), vstr(m[1], 3).c_str(), vstr(m[2], 3).c_str(), mname);
	R cr[3][4], q[3][4], w1[4], w2[4];
	for (int k = 0; k < 3; ++k) lift(m[k], cr[k]);
	R n0 = norm(cr[0], 3), n1 = norm(cr[1], 3), n2 = norm(cr[2], 3);
	if (!(n0 > 0 && n1 > 0 && n2 > 0)) { c.cls("mat:singular (not checked)"); return; }
	for (int i = 0; i < 4; ++i) q[0][i] = cr[0][i] / n0;
	axpy(-dot(q[0], cr[1], 3), q[0], cr[1], w1, 3);
	R nw1 = norm(w1, 3);
	if (!(nw1 > 0)) { c.cls("mat:singular (not checked)"); return; }
	for (int i = 0; i < 4; ++i) q[1][i] = w1[i] / nw1;
	axpy(-dot(q[0], cr[2], 3), q[0], cr[2], w2, 3); axpy(-dot(q[1], cr[2], 3), q[1], w2, w2, 3);
	R nw2 = norm(w2, 3);
	if (!(nw2 > 0)) { c.cls("mat:singular (not checked)"); return; }
	for (int i = 0; i < 4; ++i) q[2][i] = w2[i] / nw2;
	R rho1 = n1 / nw1, rho2 = n2 / nw2;
	R tol[3] = {8 * 4.5L * u, 8 * u * (16 * rho1 + 4.5L), 8 * u * (rho2 * (28 + 32 * rho1) + 4.5L)};
	if (tol[2] > 1e-2L || tol[1] > 1e-2L) { c.cls("mat:ill-conditioned (not checked)"); return; }
	c.cls("mat:checked");
	if (mk != 0 && distinct_mags(m[0], 3) && distinct_mags(m[1], 3) && distinct_mags(m[2], 3)) c.nontrivial();
	glm::mat<3, 3, T> M(G<T, 3>(m[0]), G<T, 3>(m[1]), G<T, 3>(m[2]));
	glm::mat<3, 3, T> Q = glm::orthonormalize(M);
	T g[3][4]; R rg[3][4];
	for (int k = 0; k < 3; ++k) { X<T, 3>(Q[k], g[k]); lift(g[k], rg[k]); }
	static const char* const CK[] = {"column0", "column1", "column2"};
	for (int k = 0; k < 3; ++k) {
		R dv[4]; sub(rg[k], q[k], dv, 3);
		if (!within(c, k == 0 ? "orthonormalize(mat) col0 err/tol" : k == 1 ? "orthonormalize(mat) col1 err/tol" : "orthonormalize(mat) col2 err/tol", norm(dv, 3), tol[k]))
			c.failk(std::string("orthonormalize/mat3/gram-schmidt-") + CK[k], "orthonormalize(columns %s %s %s): column %d = %s, Gram-Schmidt gives (%.9Lg,%.9Lg,%.9Lg) (bound %.3Lg)", vstr(m[0], 3).c_str(), vstr(m[1], 3).c_str(), vstr(m[2], 3).c_str(), k, vstr(g[k], 3).c_str(), q[k][0], q[k][1], q[k][2], tol[k]);
		if (!within(c, "orthonormalize(mat) |len-1| err/tol", rabs(norm(rg[k], 3) - 1), 8 * 4.5L * u))
			c.failk(std::string("orthonormalize/mat3/unit-length-") + CK[k], "orthonormalize(columns %s %s %s): column %d has length %.17Lg", vstr(m[0], 3).c_str(), vstr(m[1], 3).c_str(), vstr(m[2], 3).c_str(), k, norm(rg[k], 3));
		{	// orientation: the exact result column has cosine |w_k|/|c_k| = 1/rho_k > 0 with input column k
			R nk = k == 0 ? n0 : k == 1 ? n1 : n2, want = k == 0 ? 1 : k == 1 ? 1 / rho1 : 1 / rho2;
			if (!within(c, "orthonormalize(mat) col.own-input err/tol", rabs(dot(rg[k], cr[k], 3) / nk - want), tol[k]))
				c.failk(std::string("orthonormalize/mat3/orientation-") + CK[k], "orthonormalize: column %d = %s has cosine %.9Lg with the input column %s, expected %.9Lg", k, vstr(g[k], 3).c_str(), dot(rg[k], cr[k], 3) / nk, vstr(m[k], 3).c_str(), want);
		}
		for (int j = 0; j < k; ++j) {
			if (!within(c, "orthonormalize(mat) col.col err/tol", rabs(dot(rg[k], rg[j], 3)), tol[k] + tol[j]))
				c.failk("orthonormalize/mat3/orthogonal-columns", "orthonormalize(columns %s %s %s): result columns %d and %d have dot %.6Lg (bound %.3Lg)", vstr(m[0], 3).c_str(), vstr(m[1], 3).c_str(), vstr(m[2], 3).c_str(), j, k, dot(rg[k], rg[j], 3), tol[k] + tol[j]);
			// span order: result column k is orthogonal to the *input* columns before it
			R nj = j == 0 ? n0 : n1;
			if (!within(c, "orthonormalize(mat) col.input err/tol", rabs(dot(rg[k], cr[j], 3)) / nj, 1.5L * (tol[k] + tol[j])))
				c.failk("orthonormalize/mat3/span-order", "orthonormalize(columns %s %s %s): result column %d is not orthogonal to input column %d (cos %.6Lg)", vstr(m[0], 3).c_str(), vstr(m[1], 3).c_str(), vstr(m[2], 3).c_str(), k, j, dot(rg[k], cr[j], 3) / nj);
		}
	}
}
REG2(orthop, "orthonormalize", 1500000, 75000000,
     "vec form: x against a unit y in every pair relation (nearly parallel counted as trivial); mat3 form: independent columns, integer orthogonal frames, third column 2^-1..2^-12 away from the span of the first two; "
     "result against long-double Gram-Schmidt within the conditioning bound, unit columns, mutually orthogonal, column k orthogonal to input columns < k and at the exact cosine (> 0) with input column k; "
     "non-trivial = bound below 1e-2, columns with pairwise distinct non-zero |components| (vec form: dot(y,x) != 0)");

// =============================================================================================
// vector_angle ("Parameters need to be normalized"): angle = acos(clamp(dot)), orientedAngle signs it.
//   compared in the cosine domain, where the error of the documented formula is linear: |cos(result) - cos(theta)| <= E + 2 pi u,
//   E = L u sum|x_i y_i| + |cos theta| ||x||y| - 1| (inputs are unit only up to rounding; theta is the true angle from atan2 in long double)
template <class T, int L> static R true_angle(const T* x, const T* y, R* E) {
	R rx[4], ry[4], sm[4], df[4]; lift(x, rx); lift(y, ry);
	R nx = norm(rx, L), ny = norm(ry, L);
	for (int i = 0; i < 4; ++i) { sm[i] = i < L ? rx[i] / nx + ry[i] / ny : 0; df[i] = i < L ? rx[i] / nx - ry[i] / ny : 0; }
	R th = 2 * atan2l(norm(df, L), norm(sm, L));
	*E = L * U<T>() * adot(rx, ry, L) + rabs(cosl(th)) * rabs(nx * ny - 1);
	return th;
}
template <class T> static bool angle_ok(pbt::Ctx& c, const char* metric, T got, R th, R E) {
	const R u = U<T>();
	R a = rabs((R)got);
	if (!(a >= 0 && a <= PI_R * (1 + 4 * u))) { c.metric(metric, 1e9); return false; }
	return within(c, metric, rabs(cosl(a) - cosl(th)), 8 * E + 8 * u);
}
template <class T, int L> static void angle_L(pbt::Ctx& c) {
	T x[4], y[4];
	int rel = gen_unit_pair<T>(c, L, x, y);
	c.cls(REL_NAME[rel]);
	if (c.verbose) c.logf("L=%d x=%s y=%s (%s)", L, vstr(x, L).c_str(), vstr(y, L).c_str(), REL_KEY[rel]);
	R E, th = true_angle<T, L>(x, y, &E);
	if (th > 0.01L && th < PI_R - 0.01L && (L == 1 || distinct_mags(x, L))) c.nontrivial();
	if (th < 1e-3L) c.cls("angle~0"); else if (th > PI_R - 1e-3L) c.cls("angle~pi"); else if (rabs(th - PI_R / 2) < 1e-3L) c.cls("angle~pi/2");
	T g = glm::angle(G<T, L>(x), G<T, L>(y));
	if (fp::sign_bit(g) || !angle_ok<T>(c, "angle cos-domain err/tol", g, th, E))
		c.failk(key("angle", L, th < PI_R / 2 ? "acute" : "obtuse"), "angle(%s,%s)=%.17g, true angle %.17Lg (cos-domain bound %.3Lg)", vstr(x, L).c_str(), vstr(y, L).c_str(), (double)g, th, 8 * E + 8 * U<T>());
	if (L == 1) {
		T gs = glm::angle(x[0], y[0]);
		if (fp::sign_bit(gs) || !angle_ok<T>(c, "angle scalar cos-domain err/tol", gs, th, E)) c.failk(key("angle", 0, th < PI_R / 2 ? "acute" : "obtuse"), "angle(%.9g,%.9g)=%.17g, expected %.17Lg", (double)x[0], (double)y[0], (double)gs, th);
	}
	if (L == 2) {
		R rx[4], ry[4]; lift(x, rx); lift(y, ry);
		R cr = rx[0] * ry[1] - ry[0] * rx[1], band = 8 * 2 * U<T>() * (rabs(rx[0] * ry[1]) + rabs(ry[0] * rx[1]));
		T o = glm::orientedAngle(G<T, 2>(x), G<T, 2>(y));
		const char* oc = cr > band ? "counter-clockwise" : cr < -band ? "clockwise" : "collinear";
		c.cls(cr > band ? "2D counter-clockwise" : cr < -band ? "2D clockwise" : "2D collinear within rounding (either sign accepted)");
		if (!angle_ok<T>(c, "orientedAngle2D cos-domain err/tol", o, th, E)) c.failk(key("orientedAngle", 2, "magnitude"), "orientedAngle(%s,%s)=%.17g, |angle| should be %.17Lg", vstr(x, 2).c_str(), vstr(y, 2).c_str(), (double)o, th);
		if ((cr > band && o < 0) || (cr < -band && o > 0)) c.failk(key("orientedAngle", 2, oc), "orientedAngle(%s,%s)=%.17g but x1*y2-x2*y1=%.6Lg (%s)", vstr(x, 2).c_str(), vstr(y, 2).c_str(), (double)o, cr, oc);
		T o2 = glm::orientedAngle(G<T, 2>(y), G<T, 2>(x));
		if (rabs(cr) > band && !fp::same_value(o2, -o)) c.failk(key("orientedAngle", 2, "antisymmetric"), "orientedAngle(x,y)=%.17g but orientedAngle(y,x)=%.17g", (double)o, (double)o2);
	}
	if (L == 3) {
		T r[4];
		int rk = (int)c.draw(4);
		R rx[4], ry[4], xx[4], ss[4], rr[4]; lift(x, rx); lift(y, ry); cross3(rx, ry, xx); cross3_scale(rx, ry, ss);
		if (rk == 0 && norm(xx, 3) > 0) { R nn = norm(xx, 3); bool neg = c.coin(); for (int i = 0; i < 3; ++i) r[i] = (T)((neg ? -1 : 1) * xx[i] / nn); r[3] = 0; if (is_zero(r, 3)) r[0] = 1; }
		else if (rk == 1) { for (int i = 0; i < 4; ++i) r[i] = 0; r[c.draw(3)] = c.coin() ? T(1) : T(-1); }
		else gen_unit<T>(c, 3, r);
		lift(r, rr);
		R mp = dot(rr, xx, 3), band = 0;
		for (int i = 0; i < 3; ++i) band += 8 * U<T>() * (2 * ss[i] + 3 * (rabs(xx[i]) + ss[i])) * rabs(rr[i]);
		T o = glm::orientedAngle(G<T, 3>(x), G<T, 3>(y), G<T, 3>(r));
		const char* oc = mp > band ? "ref-along-cross" : mp < -band ? "ref-against-cross" : "ref-in-plane";
		c.cls(mp > band ? "3D ref along cross(x,y)" : mp < -band ? "3D ref against cross(x,y)" : "3D ref in the plane within rounding (either sign accepted)");
		if (c.verbose) c.logf("ref=%s", vstr(r, 3).c_str());
		if (!angle_ok<T>(c, "orientedAngle3D cos-domain err/tol", o, th, E)) c.failk(key("orientedAngle", 3, "magnitude"), "orientedAngle(%s,%s,ref=%s)=%.17g, |angle| should be %.17Lg", vstr(x, 3).c_str(), vstr(y, 3).c_str(), vstr(r, 3).c_str(), (double)o, th);
		if ((mp > band && o < 0) || (mp < -band && o > 0)) c.failk(key("orientedAngle", 3, oc), "orientedAngle(%s,%s,ref=%s)=%.17g but dot(ref,cross(x,y))=%.6Lg", vstr(x, 3).c_str(), vstr(y, 3).c_str(), vstr(r, 3).c_str(), (double)o, mp);
	}
}
template <class T> static void anglep(pbt::Ctx& c) { DISPATCH_L(angle_L) }
REG2(anglep, "angle_orientedAngle", 2000000, 100000000,
     "unit vectors (rounded to T) L=1..4 in every pair relation (angle ~0, ~pi/2, ~pi, generic) + scalar overload; 2D orientedAngle; 3D orientedAngle with ref = +-normalized cross(x,y), +-axis or random unit; "
     "angle against the true angle (atan2 in long double) in the cosine domain, result in [0,pi]; sign of orientedAngle = sign of the 2D cross / of dot(ref,cross(x,y)) when that exceeds its rounding bound; "
     "non-trivial = angle in (0.01, pi-0.01), x with pairwise distinct non-zero |components|");

// =============================================================================================
// closestPointOnLine(point, a, b) for vec2/vec3: the point of the segment [a,b] closest to `point` (a != b).
template <class T, int L> static void closest_L(pbt::Ctx& c) {
	T a[4], b[4], p[4];
	const R u = U<T>();
	gen_vec<T>(c, L, a, 8);
	if (c.draw(8) == 0) for (int i = 0; i < L; ++i) a[i] = 0;  // a at the origin
	{ T o[4]; gen_vec<T>(c, L, o, 8); for (int i = 0; i < 4; ++i) b[i] = i < L ? a[i] + o[i] : 0; }
	bool same = true; for (int i = 0; i < L; ++i) same = same && a[i] == b[i];
	if (same) b[0] = a[0] + 1;
	R ra[4], rb[4], ab[4]; lift(a, ra); lift(b, rb); sub(rb, ra, ab, L);
	R len = norm(ab, L);
	int pk = (int)c.draw(8);
	const char* pname;
	for (int i = 0; i < 4; ++i) p[i] = 0;
	if (pk <= 2) { pname = "point:anywhere"; T o[4]; gen_vec<T>(c, L, o, 8); for (int i = 0; i < L; ++i) p[i] = (c.coin() ? a[i] : b[i]) + o[i]; }
	else if (pk == 3) { pname = "point:at a"; for (int i = 0; i < L; ++i) p[i] = a[i]; }
	else if (pk == 4) { pname = "point:at b"; for (int i = 0; i < L; ++i) p[i] = b[i]; }
	else {
		R t = pk == 5 ? (R)c.uniform(0.0, 1.0) : pk == 6 ? (R)-c.loguniform(1e-3, 4.0) : 1 + (R)c.loguniform(1e-3, 4.0);
		pname = pk == 5 ? "point:offset from the interior" : pk == 6 ? "point:offset from beyond a" : "point:offset from beyond b";
		T o[4] = {0, 0, 0, 0};
		if (c.coin()) {  // offset orthogonal (up to rounding) to the line
			if (L == 2) { o[0] = (T)-ab[1]; o[1] = (T)ab[0]; }
			else { T w[4]; gen_vec<T>(c, 3, w, 2); R rw[4], x[4]; lift(w, rw); cross3(ab, rw, x); for (int i = 0; i < 3; ++i) o[i] = (T)x[i]; }
			T s = (T)c.uniform(-2.0, 2.0); for (int i = 0; i < L; ++i) o[i] *= s;
		}
		for (int i = 0; i < L; ++i) p[i] = (T)(ra[i] + t * ab[i]) + o[i];
	}
	c.cls(pname);
	// the whole configuration at another scale (exact power-of-two factor; squared norms stay far from under/overflow): the function
	// is scale-invariant, so segments far shorter or longer than 1 behave like the unscaled ones
	if (c.draw(3) == 0) {
		const int kmax = sizeof(T) == 4 ? 32 : 400;
		int k = (int)c.range(-kmax, kmax);
		T s = (T)std::ldexp(1.0, k);
		R sa[4], sb[4], sp[4], sab[4], sap[4];
		for (int i = 0; i < 4; ++i) { sa[i] = (R)a[i] * (R)s; sb[i] = (R)b[i] * (R)s; sp[i] = (R)p[i] * (R)s; sab[i] = sb[i] - sa[i]; sap[i] = sp[i] - sa[i]; }
		if (scale_safe<T>(sa, L) && scale_safe<T>(sb, L) && scale_safe<T>(sp, L) && scale_safe<T>(sab, L) && scale_safe<T>(sap, L)) {
			for (int i = 0; i < L; ++i) { a[i] *= s; b[i] *= s; p[i] *= s; }
			lift(a, ra); lift(b, rb); sub(rb, ra, ab, L); len = norm(ab, L);
			c.cls(k < -20 ? "scale: below 2^-20" : k > 20 ? "scale: above 2^20" : "scale: 2^-20..2^20");
		} else c.cls("scale: 1 (a generated component or difference too small or large to rescale)");
	} else c.cls("scale: 1");
	if (c.verbose) c.logf("L=%d point=%s a=%s b=%s (%s)", L, vstr(p, L).c_str(), vstr(a, L).c_str(), vstr(b, L).c_str(), pname);
	R rp[4], v[4], dir[4]; lift(p, rp); sub(rp, ra, v, L);
	for (int i = 0; i < 4; ++i) dir[i] = ab[i] / len;
	R D = dot(v, dir, L), SD = adot(v, dir, L);
	R errD = u * SD * (1.5L * L + 5), Dc = clampr(D, 0, len);
	R want[4], tol[4];
	for (int i = 0; i < 4; ++i) {
		want[i] = i < L ? (D <= 0 ? ra[i] : D >= len ? rb[i] : ra[i] + dir[i] * D) : 0;
		tol[i] = i < L ? 8 * (rabs(dir[i]) * (errD + u * Dc * (0.5L * L + 5)) + u * (rabs(ra[i]) + rabs(dir[i]) * Dc)) + TINY<T>() : 0;
	}
	int region = D < -8 * errD ? 0 : D > len * (1 + 8 * (0.5L * L + 2) * u) + 8 * errD ? 2 : (D > 8 * errD && D < len * (1 - 8 * (0.5L * L + 2) * u) - 8 * errD) ? 1 : 3;
	static const char* const RN[] = {"clamped to a", "interior", "clamped to b", "within rounding of an end (either branch accepted)"};
	static const char* const RK[] = {"before-a", "interior", "beyond-b", "near-end"};
	c.cls(RN[region]);
	if (region != 3 && nonzeros(a, L) + nonzeros(b, L) >= 2) c.nontrivial();
	T g[4]; X<T, L>(glm::closestPointOnLine(G<T, L>(p), G<T, L>(a), G<T, L>(b)), g);
	R rg[4]; lift(g, rg);
	if (region == 0 || region == 2) {
		const T* e = region == 0 ? a : b;
		for (int i = 0; i < L; ++i) if (!fp::same_value(g[i], e[i])) { c.failk(key("closestPointOnLine", L, RK[region]), "closestPointOnLine(point=%s,a=%s,b=%s)=%s, the projection parameter is %.6Lg of length %.6Lg: end point %s expected", vstr(p, L).c_str(), vstr(a, L).c_str(), vstr(b, L).c_str(), vstr(g, L).c_str(), D, len, region == 0 ? "a" : "b"); break; }
	} else {
		for (int i = 0; i < L; ++i)
			if (!within(c, "closestPointOnLine component err/tol", rabs(rg[i] - want[i]), tol[i])) c.failk(key("closestPointOnLine", L, RK[region]), "closestPointOnLine(point=%s,a=%s,b=%s)[%d]=%.17g, expected %.17Lg (t=%.6Lg)", vstr(p, L).c_str(), vstr(a, L).c_str(), vstr(b, L).c_str(), i, (double)g[i], want[i], D / len);
	}
	// on the segment, and not beaten by any sampled point of the segment (distances in long double)
	R tn = norm(tol, L), gv[4], pg[4]; sub(rg, ra, gv, L); sub(rp, rg, pg, L);
	R tg = clampr(dot(gv, dir, L), 0, len), foot[4], off[4];
	axpy(tg, dir, ra, foot, L); sub(rg, foot, off, L);
	if (!within(c, "closestPointOnLine off-segment err/tol", norm(off, L), tn)) c.failk(key("closestPointOnLine", L, "on-segment"), "closestPointOnLine(point=%s,a=%s,b=%s)=%s is %.6Lg away from the segment", vstr(p, L).c_str(), vstr(a, L).c_str(), vstr(b, L).c_str(), vstr(g, L).c_str(), norm(off, L));
	R dg = norm(pg, L);
	R ts[5] = {0, len, Dc, clampr(Dc + len * (R)c.uniform(-0.1, 0.1), 0, len), len * (R)c.unit()};
	for (int k = 0; k < 5; ++k) {
		R s[4], ps[4]; axpy(ts[k], dir, ra, s, L); sub(rp, s, ps, L);
		if (!within(c, "closestPointOnLine beaten-by err/tol", dg - norm(ps, L), tn)) c.failk(key("closestPointOnLine", L, "closest"), "closestPointOnLine(point=%s,a=%s,b=%s)=%s is at distance %.17Lg but the segment point at t=%.6Lg is at %.17Lg", vstr(p, L).c_str(), vstr(a, L).c_str(), vstr(b, L).c_str(), vstr(g, L).c_str(), dg, ts[k] / len, norm(ps, L));
	}
}
template <class T> static void closestp(pbt::Ctx& c) { if (c.coin()) closest_L<T, 2>(c); else closest_L<T, 3>(c); }
REG2(closestp, "closestPointOnLine", 1500000, 75000000,
     "segments a != b (vec2 and vec3, magnitudes 2^-8..2^8, a sometimes the origin; one case in three with the whole configuration scaled by 2^k, |k| <= 32 float / 400 double), point anywhere / at an end / offset (along the normal or randomly) from a point of the line before a, inside, beyond b; "
     "result against a + clamp(t,0,1)(b-a) in long double (exactly the end point when clamped by margin), lies on the segment, no sampled segment point (ends, foot, neighbours, random) is closer; "
     "non-trivial = the region (before a / interior / beyond b) is decided beyond rounding");
