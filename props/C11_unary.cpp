// C11 (part 1 of 3) — unary common functions: complete enumeration of all 2^32 float bit patterns (both tiers),
// structured + random doubles. Oracles: bit-level reference models in engine/ref/refcommon.hpp (integer arithmetic
// on the IEEE encoding; no libm rounding function, since GLM forwards to libm) and definitional formulas of the
// GLSL 4.20 text quoted in glm/common.hpp. One sweep checks a *group* of functions on the same pattern so that the
// whole float space is visited for every function in the quick tier too.
//
// Failure keys: <function>/<type>/<input class>; the input class is computed from the argument only (never from
// GLM's answer), so a defect confined to one class (NaN, inf, 0.5-ulp, odd integers >= 2^23 ...) cannot hide a
// different defect of the same function in another class.
#include "fp.hpp"
#include "ref/refcommon.hpp"
#include "ref/c11_support.hpp"
#include <glm/glm.hpp>
#include <glm/ext/scalar_common.hpp>
#include <glm/ext/vector_common.hpp>
#include <glm/gtx/common.hpp>
#include <glm/gtx/compatibility.hpp>
#include <glm/gtx/wrap.hpp>

using namespace fp;

// ------------------------------------------------------------------------------------------------------------
// group 1: floor ceil trunc round roundEven fract modf
template <class T> static void check_rounding(pbt::Ctx& c, T x) {
	const char* k = xclass(x);
	c.cls(k);
	if (c.verbose) c.logf("%s x=%a (%.17g) class=%s", TN<T>::n(), (double)x, (double)x, k);
	const refc::Rounded<T> R = refc::rounded(x);
	const bool fin = R.fin, tie = R.tie;
	if (!R.integer) c.nontrivial();  // result differs from the argument, or the argument is inf/NaN

	T got;
	got = glm::floor(x);
	if (!same_value(got, R.fl)) FAILK(c, "floor", T, k, "floor(%a)=%a, expected %a", (double)x, (double)got, (double)R.fl);
	got = glm::ceil(x);
	if (!same_value(got, R.ce)) FAILK(c, "ceil", T, k, "ceil(%a)=%a, expected %a", (double)x, (double)got, (double)R.ce);
	got = glm::trunc(x);
	if (!same_value(got, R.t)) FAILK(c, "trunc", T, k, "trunc(%a)=%a, expected %a", (double)x, (double)got, (double)R.t);

	// round: "a nearest integer", either one on a tie
	got = glm::round(x);
	if (!(same_value(got, R.away) || same_value(got, R.even))) FAILK(c, "round", T, k, "round(%a)=%a, nearest integer is %a%s", (double)x, (double)got, (double)R.away, tie ? " (tie: the even neighbour is accepted too)" : "");
	else if (tie) c.cls(R.even == R.away ? "round:tie(even==away)" : (got == R.even ? "round:tie->even" : "round:tie->away"));
	// roundEven: nearest integer, the even one on a tie; inf -> inf, NaN -> NaN (no integer is near either)
	got = glm::roundEven(x);
	if (!same_value(got, R.even)) FAILK(c, "roundEven", T, k, "roundEven(%a)=%a, expected %a", (double)x, (double)got, (double)R.even);

	// fract = x - floor(x) (one correctly rounded subtraction), inside [0,1] for finite x
	got = glm::fract(x);
	{
		T want = x - R.fl;
		if (!same_value(got, want)) FAILK(c, "fract", T, k, "fract(%a)=%a, x-floor(x)=%a", (double)x, (double)got, (double)want);
		if (fin && !(got >= T(0) && got <= T(1))) FAILK(c, "fract-range", T, k, "fract(%a)=%a outside [0,1]", (double)x, (double)got);
		if (fin && got == T(1)) c.cls("fract==1");
	}
	// modf: integer part and fractional part, both with the sign of x; x - trunc(x) is exact
	{
		T ip = T(77);
		T fr = glm::modf(x, ip);
		if (!same_value(ip, R.t)) FAILK(c, "modf-int", T, k, "modf(%a) integer part %a, expected %a", (double)x, (double)ip, (double)R.t);
		if (fin) {
			T wf = x - R.t;
			if (!same_value(fr, wf)) FAILK(c, "modf-frac", T, k, "modf(%a) fractional part %a, expected %a", (double)x, (double)fr, (double)wf);
			if (refc::sign_bit(fr) != refc::sign_bit(x) || refc::sign_bit(ip) != refc::sign_bit(x)) FAILK(c, "modf-sign", T, k, "modf(%a) = (%a, %a): both parts must carry the sign of x", (double)x, (double)fr, (double)ip);
		} else if (refc::is_nan(x) && !refc::is_nan(fr)) FAILK(c, "modf-frac", T, k, "modf(NaN) fractional part %a", (double)fr);
	}
}

// ------------------------------------------------------------------------------------------------------------
// group 2: abs sign isnan isinf isfinite isdenormal, bit casts (float), frexp + ldexp round trip
template <class T> static void check_classify(pbt::Ctx& c, T x) {
	const char* k = xclass(x);
	c.cls(k);
	if (c.verbose) c.logf("%s x=%a (%.17g) bits=0x%llx class=%s", TN<T>::n(), (double)x, (double)x, (unsigned long long)refc::bits(x), k);
	const bool nan = refc::is_nan(x), inf = refc::is_inf(x), zero = refc::is_zero(x), sub = refc::is_subnormal(x);
	c.nontrivial();  // every pattern: a classifier fires, the sign is stripped, or frexp decomposes a non-zero finite value

	// abs: "Returns x if x >= 0; otherwise, it returns -x" -- the representation is the point (sign stripping), so BITS
	// against the sentence itself: abs(-0) = -0 (counted), abs(NaN) = NaN
	T got = glm::abs(x), want = x >= T(0) ? x : -x;
	if (nan ? !refc::is_nan(got) : !same_bits(got, want)) FAILK(c, "abs", T, k, "abs(%a)=%a, expected %a", (double)x, (double)got, (double)want);
	else if (!nan && !zero && refc::sign_bit(got)) FAILK(c, "abs-sign", T, k, "abs(%a)=%a is negative", (double)x, (double)got);
	else if (zero && refc::sign_bit(got)) c.cls("abs(-0)=-0");

	got = glm::sign(x);
	if (nan) { if (!(got == T(-1) || got == T(0) || got == T(1))) FAILK(c, "sign", T, k, "sign(NaN)=%a not in {-1,0,+1}", (double)got); }
	else { want = x > T(0) ? T(1) : (x < T(0) ? T(-1) : T(0)); if (!(got == want)) FAILK(c, "sign", T, k, "sign(%a)=%a, expected %a", (double)x, (double)got, (double)want); }

	bool b;
	if ((b = glm::isnan(x)) != nan) FAILK(c, "isnan", T, k, "isnan(bits 0x%llx)=%d", (unsigned long long)refc::bits(x), (int)b);
	if ((b = glm::isinf(x)) != inf) FAILK(c, "isinf", T, k, "isinf(bits 0x%llx)=%d", (unsigned long long)refc::bits(x), (int)b);
	if ((b = glm::isfinite(x)) != (!nan && !inf)) FAILK(c, "isfinite", T, k, "isfinite(bits 0x%llx)=%d", (unsigned long long)refc::bits(x), (int)b);
	if ((b = glm::isdenormal(x)) != sub) FAILK(c, "isdenormal", T, k, "isdenormal(bits 0x%llx)=%d", (unsigned long long)refc::bits(x), (int)b);

	if constexpr (sizeof(T) == 4) {
		uint32_t u = refc::bits(x);
		int gi = glm::floatBitsToInt(x); glm::uint gu = glm::floatBitsToUint(x);
		if ((uint32_t)gi != u) FAILK(c, "floatBitsToInt", T, k, "floatBitsToInt(bits 0x%08x)=0x%08x", u, (uint32_t)gi);
		if (gu != u) FAILK(c, "floatBitsToUint", T, k, "floatBitsToUint(bits 0x%08x)=0x%08x", u, gu);
		float fi = glm::intBitsToFloat((int)u), fu = glm::uintBitsToFloat(u);
		if (f2u(fi) != u) FAILK(c, "intBitsToFloat", T, k, "intBitsToFloat(0x%08x) has bits 0x%08x", u, f2u(fi));
		if (f2u(fu) != u) FAILK(c, "uintBitsToFloat", T, k, "uintBitsToFloat(0x%08x) has bits 0x%08x", u, f2u(fu));
		// the pattern read as an int: abs (bit-trick specialisation; abs(INT_MIN) is not representable) and sign
		const int iv = (int)u;
		const char* ik = iv == INT32_MIN ? "int-min" : (iv < 0 ? "negative" : (iv == 0 ? "zero" : "positive"));
		if (iv != INT32_MIN) { int ga = glm::abs(iv); if (ga != (iv < 0 ? -iv : iv)) c.failk(std::string("abs/int32/") + ik, "abs(%d)=%d", iv, ga); }
		int gs = glm::sign(iv);
		if (gs != (iv > 0 ? 1 : (iv < 0 ? -1 : 0))) c.failk(std::string("sign/int32/") + ik, "sign(%d)=%d", iv, gs);
	}

	// frexp: |significand| in [0.5,1), x = significand * 2^exp exactly; zero -> (0,0); undefined for inf/NaN
	if (!nan && !inf) {
		int ge = 12345, we;
		T gs = glm::frexp(x, ge), ws = refc::frexp(x, &we);
		if (!same_bits(gs, ws) || ge != we) FAILK(c, "frexp", T, k, "frexp(%a)=(%a,%d), expected (%a,%d)", (double)x, (double)gs, ge, (double)ws, we);
		if (!zero && !(refc::fabs(gs) >= T(0.5) && refc::fabs(gs) < T(1))) FAILK(c, "frexp-range", T, k, "frexp(%a) significand %a outside [0.5,1)", (double)x, (double)gs);
		T back = glm::ldexp(ws, we);
		if (!same_bits(back, x)) FAILK(c, "ldexp-roundtrip", T, k, "ldexp(%a,%d)=%a, expected %a", (double)ws, we, (double)back, (double)x);
	}
}

// ------------------------------------------------------------------------------------------------------------
// group 3: iround uround (x >= 0, nearest integer representable), texture-coordinate wrap modes, saturate
template <class T> static const char* iclass(T x, const char* k) {  // finer classes for the x+0.5 family (x >= 0, finite); k = xclass(x)
	if (x < T(0.5)) return x == pred_half<T>() ? "x=0.5-ulp" : (refc::is_zero(x) ? "zero" : "x<0.5");
	if (x >= two_mant<T>()) {
		if (x < two_mant<T>() * 2) return refc::iseven(x) ? "even-integer-2^mant..2^(mant+1)" : "odd-integer-2^mant..2^(mant+1)";
		return "integer>=2^(mant+1)";
	}
	if (k[0] == 't') return "tie";
	return refc::isinteger(x) ? "integer" : "fraction";
}
template <class T> static void check_iround_wrap(pbt::Ctx& c, T x) {
	typedef typename std::conditional<sizeof(T) == 4, double, long double>::type W;  // differences below are exact in W
	const char* k = xclass(x);
	if (c.verbose) c.logf("%s x=%a (%.17g) class=%s", TN<T>::n(), (double)x, (double)x, k);
	const bool fin = refc::is_finite(x), nan = refc::is_nan(x);
	bool nt = false;
	// iround / uround: documented for x >= 0 (GLM asserts it); nearest integer whenever it is representable, i.e.
	// x < 2^31 - 0.5 resp. x < 2^32 - 0.5 (at and above that bound a nearest integer is 2^31 resp. 2^32)
	if (fin && !refc::sign_bit(x) && (W)x < (W)4294967295.5) {
		const char* ik = iclass(x, k);
		c.cls(ik);
		if ((W)x < (W)2147483647.5) {
			int r = glm::iround(x);
			W d = (W)x - (W)r; if (d < 0) d = -d;
			if (d > (W)0.5) FAILK(c, "iround", T, ik, "iround(%a = %.17g)=%d is not a nearest integer", (double)x, (double)x, r);
		}
		glm::uint r = glm::uround(x);
		W d = (W)x - (W)r; if (d < 0) d = -d;
		if (d > (W)0.5) FAILK(c, "uround", T, ik, "uround(%a = %.17g)=%u is not a nearest integer", (double)x, (double)x, r);
		if (ik[0] == 'f' || ik[0] == 't' || ik[0] == 'x') nt = true;  // not an integer: rounding happens
	} else c.cls(k);
	// GL_CLAMP: clamp to [0,1] (not defined on NaN like clamp itself)
	if (!nan) {
		T want = x < T(0) ? T(0) : (x > T(1) ? T(1) : x);
		T got = glm::clamp(x);
		if (!(got == want)) FAILK(c, "wrap-clamp", T, k, "clamp(%a)=%a, expected %a", (double)x, (double)got, (double)want);
		got = glm::saturate(x);
		if (!(got == want)) FAILK(c, "saturate", T, k, "saturate(%a)=%a, expected %a", (double)x, (double)got, (double)want);
		if (!(x >= T(0) && x <= T(1))) nt = true;
	}
	if (fin) {
		const W tol = (W)std::numeric_limits<T>::epsilon() * 2;  // 8 x the half-ulp (below 1.0) of the single rounding in 1-r
		const T a = refc::fabs(x), n = refc::floor(a), r = a - n;  // r exact
		// GL_REPEAT: x - floor(x)
		T got = glm::repeat(x), want = x - refc::floor(x);
		if (!(got == want)) FAILK(c, "repeat", T, k, "repeat(%a)=%a, x-floor(x)=%a", (double)x, (double)got, (double)want);
		if (!(got >= T(0) && got <= T(1))) FAILK(c, "repeat-range", T, k, "repeat(%a)=%a outside [0,1]", (double)x, (double)got);
		// mirrorClamp: in [0,1]; inside the unit interval the coordinate is |x| (mirror about 0)
		got = glm::mirrorClamp(x);
		if (!(got >= T(0) && got <= T(1))) FAILK(c, "mirrorClamp-range", T, k, "mirrorClamp(%a)=%a outside [0,1]", (double)x, (double)got);
		if (a < T(1) && !(got == a)) FAILK(c, "mirrorClamp-unit", T, k, "mirrorClamp(%a)=%a, expected |x| inside the unit interval", (double)x, (double)got);
		// GL_MIRRORED_REPEAT: with n = floor(|x|), r = |x| - n (exact): r for even n, 1-r for odd n
		got = glm::mirrorRepeat(x);
		const bool even = refc::iseven(n);
		W exact = even ? (W)r : (W)1 - (W)r;
		W e = (W)got - exact; if (e < 0) e = -e;
		if (e != 0) c.metric("mirrorRepeat err/tol", (double)(e / tol) < 1e300 ? (double)(e / tol) : 1e300);
		if (!(e <= tol)) FAILK(c, "mirrorRepeat", T, k, "mirrorRepeat(%a)=%a, GL mirrored-repeat coordinate %.17g", (double)x, (double)got, (double)exact);
		if (!(got >= T(0) && got <= T(1))) FAILK(c, "mirrorRepeat-range", T, k, "mirrorRepeat(%a)=%a outside [0,1]", (double)x, (double)got);
		if (a >= T(1) && r != T(0)) { nt = true; c.cls(even ? "mirror:even-period" : "mirror:odd-period"); }
	}
	if (nt) c.nontrivial();
}

// ------------------------------------------------------------------------------------------------------------
// float: every bit pattern, both tiers
static void sweep_rounding(pbt::Ctx& c) { check_rounding<float>(c, u2f((uint32_t)c.draw(1ULL << 32))); }
PBT_SWEEP("sweep/float/rounding", sweep_rounding, 1ULL << 32, 1, 1,
          "every float bit pattern through floor ceil trunc round roundEven fract modf; non-trivial = argument not an integer value (result differs from the argument) or inf/NaN");
static void sweep_classify(pbt::Ctx& c) { check_classify<float>(c, u2f((uint32_t)c.draw(1ULL << 32))); }
PBT_SWEEP("sweep/float/classify_bits_frexp", sweep_classify, 1ULL << 32, 1, 1,
          "every float bit pattern through abs sign isnan isinf isfinite isdenormal floatBitsToInt/Uint intBitsToFloat uintBitsToFloat (the pattern is also every int/uint, so abs(int)/sign(int) see every int) frexp ldexp(frexp); every pattern is non-trivial (frexp decomposes it or a classifier fires)");
static void sweep_iround(pbt::Ctx& c) { check_iround_wrap<float>(c, u2f((uint32_t)c.draw(1ULL << 32))); }
PBT_SWEEP("sweep/float/iround_wrap", sweep_iround, 1ULL << 32, 1, 1,
          "every float bit pattern through clamp/repeat/mirrorClamp/mirrorRepeat/saturate and, for 0 <= x < 2^31 resp. 2^32 (asserted precondition, representable result), iround/uround; non-trivial = x outside [0,1] or x not an integer");

// double: statement lattice, binade edges, ties k+0.5 up to 2^52, boundaries of int/uint, random
static void dbl_rounding(pbt::Ctx& c) { check_rounding<double>(c, gen_struct<double>(c, true)); }
PBT_RANDOM("random/double/rounding", dbl_rounding, 3000000, 400000000,
           "doubles: special lattice, every binade edge +-1ulp, ties k+0.5 (k up to 2^52) +-1ulp, values around 2^31/2^32/2^52/2^53, moderate and raw bit patterns; non-trivial = argument not an integer value or inf/NaN");
static void dbl_classify(pbt::Ctx& c) { check_classify<double>(c, gen_struct<double>(c, true)); }
PBT_RANDOM("random/double/classify_frexp", dbl_classify, 3000000, 400000000, "same generator through abs sign isnan isinf isfinite isdenormal frexp ldexp(frexp); every case non-trivial");
static void dbl_iround(pbt::Ctx& c) { check_iround_wrap<double>(c, gen_struct<double>(c, true)); }
PBT_RANDOM("random/double/iround_wrap", dbl_iround, 3000000, 400000000, "same generator through the wrap modes and iround/uround (0 <= x < 2^31 / 2^32); non-trivial = x outside [0,1] or x not an integer");

int main(int argc, char** argv) { return pbt::pbt_main(argc, argv, "C11"); }
