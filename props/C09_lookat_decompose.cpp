// C09 (part 2 of 2, with main) — lookAt / lookAtRH / lookAtLH, gtx/matrix_decompose (decompose, recompose), gtx/matrix_interpolation
// (axisAngle, axisAngleMatrix, extractMatrixRotation, interpolate).
// Oracles (engine/ref/reftransform.hpp, long double, no GLM code):
//   lookAt    the geometric characterisation of the property statement evaluated on GLM's matrix (rigid: orthonormal, det +1, affine last row;
//             eye -> origin; view direction -> -z (RH) / +z (LH); image of up has x = 0, y > 0) plus the matrix these conditions determine,
//             under the bound of the documented construction (conditioning 1/sin of the angle between up and the view direction);
//             unsuffixed lookAt = the variant selected by the handedness macro, bit for bit (C09_EXPECT_LH is set by the LH build).
//   decompose components -> reference composition P * T * R * K * S (perspective row, translation, rotation, upper-triangular skew, scale)
//             must rebuild M / M[3][3] within K u cond(M); recompose against the same composition of its arguments; both chained.
//             Instantiation of both for float/double x highp/mediump/lowp comes from the syntax-only pre-pass (have.hpp).
//   axisAngle the returned (axis, angle) must rebuild the rotation it was extracted from (conditioning 1/sin(angle)); interpolate against
//             Rodrigues(axis of R2 R1^T, delta * angle) * R1 and the linear blend of the translations.
#include "fp.hpp"
#include "ref/reftransform.hpp"
#include <glm/glm.hpp>
#include <glm/ext/matrix_transform.hpp>
#include <glm/gtc/quaternion.hpp>
#include <glm/gtx/matrix_decompose.hpp>
#include <glm/gtx/matrix_interpolation.hpp>
#include "have.hpp"

#ifndef C09_CFG
#define C09_CFG "RH"
#endif
#ifdef C09_EXPECT_LH
static const bool EXPECT_LH = true;
#else
static const bool EXPECT_LH = false;
#endif

using namespace refgeom;
using namespace reftr;

template <class T, glm::qualifier Q> static void to16(const glm::mat<4, 4, T, Q>& m, T* a) { for (int c = 0; c < 4; ++c) for (int r = 0; r < 4; ++r) a[4 * c + r] = m[c][r]; }
template <class T> static glm::mat<4, 4, T> g4(const T* a) { glm::mat<4, 4, T> m(T(0)); for (int c = 0; c < 4; ++c) for (int r = 0; r < 4; ++r) m[c][r] = a[4 * c + r]; return m; }
template <class T, int L> static glm::vec<L, T> G(const T* v) { glm::vec<L, T> r(0); for (int i = 0; i < L; ++i) r[i] = v[i]; return r; }
static inline bool within(pbt::Ctx& c, const char* metric, R err, R tol) { R r = err == 0 ? 0 : err / tol; c.metric(metric, r < 1e30L ? (double)r : 1e30); return err <= tol; }
template <class T> static const char* tname() { return sizeof(T) == 4 ? "float" : "double"; }

// =============================================================================================
// lookAt
template <class T> static void lookat_p(pbt::Ctx& c) {
	const R u = U<T>();
	T eye[4] = {0, 0, 0, 0}, dir[4], cen[4] = {0, 0, 0, 0}, up[4];
	int ek = (int)c.draw(4);
	if (ek == 0) c.cls("eye:origin");
	else if (ek == 1) { for (int i = 0; i < 3; ++i) eye[i] = (T)c.range(-8, 8); c.cls("eye:small-int"); }
	else { for (int i = 0; i < 3; ++i) eye[i] = fp::gen_moderate<T>(c, 6, 6); c.cls("eye:moderate"); }
	gen_vec<T>(c, 3, dir, 6);
	for (int i = 0; i < 3; ++i) cen[i] = eye[i] + dir[i];
	R re[4], rc[4], d[4], f[4]; lift(eye, re); lift(cen, rc); sub(rc, re, d, 3);
	if (!unit3(d, f)) { c.skip(); return; }  // eye == center after rounding: outside the quantifier
	int uk = (int)c.draw(8);
	bool unit_up = true;
	if (uk == 0) { up[0] = up[2] = up[3] = 0; up[1] = 1; c.cls("up:+y"); }
	else if (uk == 1) { up[0] = up[1] = up[3] = 0; up[2] = 1; c.cls("up:+z"); }
	else if (uk == 2) {  // nearly parallel to the view direction: angle 1e-3 .. 1e-1
		R w[4] = {(R)c.uniform(-1, 1), (R)c.uniform(-1, 1), (R)c.uniform(-1, 1), 0}, p[4], pn[4];
		R k = dot(w, f, 3); for (int i = 0; i < 3; ++i) p[i] = w[i] - k * f[i];
		if (!unit3(p, pn)) { pn[0] = pn[1] = pn[2] = 0; pn[rabs(f[0]) < 0.5L ? 0 : 1] = 1; }
		R a = (R)c.loguniform(1e-3, 1e-1), sg = c.coin() ? 1 : -1;
		for (int i = 0; i < 3; ++i) up[i] = (T)(sg * cosl(a) * f[i] + sinl(a) * pn[i]);
		up[3] = 0; make_unit(up, 3); c.cls("up:nearly-parallel(1e-3..1e-1 rad)");
	}
	else if (uk == 3) { gen_vec<T>(c, 3, up, 4); unit_up = false; c.cls("up:not-normalised"); }
	else { gen_unit<T>(c, 3, up); c.cls("up:unit-random"); }
	R ru[4], x[4]; lift(up, ru); cross3(f, ru, x);
	const R lu = norm(ru, 3), sn = norm(x, 3) / lu;  // sine of the angle between the view direction and up
	if (c.verbose) c.logf("eye=%s center=%s up=%s (sin(angle(view,up))=%.3Lg)", vstr(eye, 3).c_str(), vstr(cen, 3).c_str(), vstr(up, 3).c_str(), sn);
	if (sn < 1e-3L) { c.skip(); return; }  // up (anti)parallel to the view direction: outside the quantifier
	// bound of the documented construction: f = normalize(center-eye): 5.5u; cross(f,up): 2 sqrt(3) u |up| of its own rounding + 5.5u |up| inherited from f, relative to
	// |f x up| = |up| sin -> 9u/sin, normalize +4.5u; u = cross(s,f): + 3.5u + 5.5u
	const R es = 9 * u / sn + 4.5L * u, eu = es + 9 * u, ef = 5.5L * u, E = 8 * (eu + ef);
	if (E > 1e-2L) { c.cls("ill-conditioned (bound > 1e-2)"); }
	else if (nonzeros(dir, 3) >= 2 && nonzeros(up, 3) >= 1 && !is_zero(eye, 3)) c.nontrivial();
	const std::string tag = unit_up ? "" : "/up-not-normalised";
	char call[200]; snprintf(call, sizeof call, "(eye=%s,center=%s,up=%s)", vstr(eye, 3).c_str(), vstr(cen, 3).c_str(), vstr(up, 3).c_str());

	for (int variant = 0; variant < 2; ++variant) {  // 0: RH, 1: LH
		const char* fn = variant ? "lookAtLH" : "lookAtRH";
		T g[16];
		to16(variant ? glm::lookAtLH(G<T, 3>(eye), G<T, 3>(cen), G<T, 3>(up)) : glm::lookAtRH(G<T, 3>(eye), G<T, 3>(cen), G<T, 3>(up)), g);
		const M4 L = lift16(g);
		const R zs = variant ? 1 : -1;
		auto K = [&](const char* what) { return std::string(fn) + "/" + what + tag; };
		// rigid: affine last row, orthonormal upper 3x3, det +1
		if (!(g[3] == 0 && g[7] == 0 && g[11] == 0 && g[15] == 1)) c.failk(K("last-row-0001"), "%s%s: last row (%.9g,%.9g,%.9g,%.9g)", fn, call, (double)g[3], (double)g[7], (double)g[11], (double)g[15]);
		M4 LtL = mul(transpose(L), L);
		R worst = 0; for (int j = 0; j < 3; ++j) for (int i = 0; i < 3; ++i) { R s = 0; for (int k = 0; k < 3; ++k) s += L.m[i][k] * L.m[j][k]; worst = rmax(worst, rabs(s - (i == j ? 1 : 0))); }
		(void)LtL;
		if (!within(c, "lookAt orthonormality err/tol", worst, 2 * E)) c.failk(K("orthonormal"), "%s%s: |R R^T - I| = %.3Lg exceeds %.3Lg", fn, call, worst, 2 * E);
		R dt = det3(L);
		if (!within(c, "lookAt |det-1| err/tol", rabs(dt - 1), 3 * E)) c.failk(K("det+1"), "%s%s: determinant of the upper 3x3 = %.9Lg", fn, call, dt);
		// eye -> origin: the translation is -R eye computed with 3-term dot products of the very rows stored in the matrix
		R e4[4] = {re[0], re[1], re[2], 1}, img[4], sc[4];
		apply(L, e4, img); absapply(L, e4, sc);
		for (int i = 0; i < 3; ++i)
			if (!within(c, "lookAt eye->origin err/tol", rabs(img[i]), 8 * 4 * u * sc[i] + TINY<T>())) { c.failk(K("eye-to-origin"), "%s%s maps eye to component %d = %.6Lg (cancellation bound %.3Lg)", fn, call, i, img[i], 8 * 4 * u * sc[i]); break; }
		// view direction -> -z (RH) / +z (LH)
		R f4[4] = {f[0], f[1], f[2], 0}, fi[4];
		apply(L, f4, fi);
		worst = rmax(rmax(rabs(fi[0]), rabs(fi[1])), rabs(fi[2] - zs));
		if (!within(c, "lookAt view->z err/tol", worst, E)) c.failk(K(variant ? "view-direction-to+z" : "view-direction-to-z"), "%s%s maps the unit view direction to (%.9Lg,%.9Lg,%.9Lg), expected (0,0,%+.0Lf)", fn, call, fi[0], fi[1], fi[2], zs);
		// up -> x = 0, y > 0
		R u4[4] = {ru[0] / lu, ru[1] / lu, ru[2] / lu, 0}, ui[4];
		apply(L, u4, ui);
		if (!within(c, "lookAt up.x err/tol", rabs(ui[0]), E)) c.failk(K("up-in-yz-plane"), "%s%s maps the unit up vector to x = %.6Lg (bound %.3Lg)", fn, call, ui[0], E);
		if (E < sn / 2 && !(ui[1] > 0)) c.failk(K("up-in-+y-half-plane"), "%s%s maps up to y = %.9Lg, expected %.9Lg > 0", fn, call, ui[1], sn);
		if (E < sn / 2) within(c, "lookAt |up.y - sin| err/tol", rabs(ui[1] - sn), E);
		// the matrix these conditions determine
		R s[4], sv[4], uv[4];
		if (variant) cross3(ru, f, sv); else cross3(f, ru, sv);
		unit3(sv, s);
		if (variant) cross3(f, s, uv); else cross3(s, f, uv);
		M4 W = ident4();
		for (int j = 0; j < 3; ++j) { W.m[j][0] = s[j]; W.m[j][1] = uv[j]; W.m[j][2] = zs * f[j]; }
		W.m[3][0] = -dot(s, re, 3); W.m[3][1] = -dot(uv, re, 3); W.m[3][2] = -zs * dot(f, re, 3);
		bool ok = true;
		for (int cc = 0; cc < 4 && ok; ++cc) for (int r = 0; r < 3 && ok; ++r) {
			R tol = cc < 3 ? E : E * (rabs(re[0]) + rabs(re[1]) + rabs(re[2])) + 8 * 4 * u * sc[r] + TINY<T>();
			if (!within(c, "lookAt entry err/tol", rabs(L.m[cc][r] - W.m[cc][r]), tol)) { ok = false; c.failk(K("matrix"), "%s%s[%d][%d]=%.17g, expected %.17Lg (bound %.3Lg)", fn, call, cc, r, (double)g[4 * cc + r], W.m[cc][r], tol); }
		}
		// unsuffixed lookAt: the variant the configuration selects, bit for bit
		if ((variant == 1) == EXPECT_LH) {
			T h[16]; to16(glm::lookAt(G<T, 3>(eye), G<T, 3>(cen), G<T, 3>(up)), h);
			for (int i = 0; i < 16; ++i) if (!fp::same_bits(h[i], g[i])) { c.failk(std::string("lookAt/follows-handedness-macro"), "lookAt%s[%d][%d]=%.17g but %s gives %.17g (configuration " C09_CFG ")", call, i / 4, i % 4, (double)h[i], fn, (double)g[i]); break; }
		}
	}
}
static void lookat_f(pbt::Ctx& c) { lookat_p<float>(c); }
static void lookat_d(pbt::Ctx& c) { lookat_p<double>(c); }
#define LOOKAT_RULE "eye (origin / small ints / 2^-6..2^6) x center = eye + non-zero offset (2^-6..2^6, small ints, axis-aligned) x up (+y, +z, unit random, nearly parallel to the view direction at 1e-3..1e-1 rad, not normalised); " \
	"cases with eye == center or sin(angle(view,up)) < 1e-3 are discarded; lookAtRH and lookAtLH: last row (0,0,0,1), upper 3x3 orthonormal with det 1, eye -> origin (cancellation bound of the stored rows), view direction -> -z / +z, " \
	"up -> x = 0 and y = sin > 0, every entry against the matrix these conditions determine (bound ~ 9u/sin); lookAt bit-identical to the variant of the configured handedness; " \
	"non-trivial = bound below 1e-2, offset with two non-zero components, eye not the origin"
PBT_RANDOM(C09_CFG "/lookAt/float", lookat_f, 600000, 12000000, LOOKAT_RULE);
PBT_RANDOM(C09_CFG "/lookAt/double", lookat_d, 600000, 12000000, LOOKAT_RULE);

// =============================================================================================
// decompose / recompose
struct Comps { R s[4], q[4] /*wxyz*/, t[4], k[4] /*skew x,y,z*/, p[4]; };
// P * T * R * K * S: P = identity with last row p, K = [[1, kz, ky],[0, 1, kx],[0,0,1]] (x' = x + kz y + ky z, y' = y + kx z)
static M4 compose(const Comps& k, M4* absprod) {
	M4 P = ident4(), Tm = translation(k.t), Rm = quat_rotation(k.q[0], k.q[1], k.q[2], k.q[3]), K = ident4(), S = scaling(k.s);
	for (int i = 0; i < 4; ++i) P.m[i][3] = k.p[i];
	K.m[1][0] = k.k[2]; K.m[2][0] = k.k[1]; K.m[2][1] = k.k[0];
	if (absprod) {  // |P||T||R||K||S| with every entry of the 3x3 rotation block raised by 1/3: the scale that both product rounding and the error of the rotation entries are relative to
		M4 aR = absm(Rm); for (int c = 0; c < 3; ++c) for (int r = 0; r < 3; ++r) aR.m[c][r] += 1 / 3.0L;
		*absprod = mul(mul(mul(mul(absm(P), absm(Tm)), aR), absm(K)), absm(S));
	}
	return mul(mul(mul(mul(P, Tm), Rm), K), S);
}
template <class T> static std::string cstr(const T* s, const T* q, const T* t, const T* k, const T* p) {
	return "scale=" + vstr(s, 3) + " q(wxyz)=" + vstr(q, 4) + " translation=" + vstr(t, 3) + " skew=" + vstr(k, 3) + " perspective=" + vstr(p, 4);
}
template <class T, bool HaveD, bool HaveR> static void decomp_p(pbt::Ctx& c) {
	const R u = U<T>();
	T s[4] = {1, 1, 1, 0}, q[4] = {1, 0, 0, 0}, t[4] = {0, 0, 0, 0}, k[4] = {0, 0, 0, 0}, p[4] = {0, 0, 0, 1};
	// --- components
	int sk = (int)c.draw(5);
	if (sk == 0) c.cls("scale:1");
	else if (sk == 1) { T v = (T)c.loguniform(0.1, 10.0); s[0] = s[1] = s[2] = v; c.cls("scale:uniform"); }
	else { for (int i = 0; i < 3; ++i) { s[i] = (T)c.loguniform(0.1, 10.0); if (sk >= 3 && c.coin()) s[i] = -s[i]; } c.cls(sk == 2 ? "scale:positive" : "scale:mixed-sign"); }
	if (s[0] * s[1] * s[2] < 0) c.cls("negative determinant");
	int rk = (int)c.draw(6);
	R ax[4] = {0, 0, 0, 0}, ang = 0;
	if (rk == 0) { ax[0] = 1; c.cls("rotation:identity"); }
	else if (rk == 1) { ax[c.draw(3)] = c.coin() ? 1 : -1; ang = (R)c.range(1, 3) * PI_R / 2; c.cls("rotation:coordinate-axis k*pi/2"); }
	else { R w[4] = {(R)c.uniform(-1, 1), (R)c.uniform(-1, 1), (R)c.uniform(-1, 1), 0}; if (!unit3(w, ax)) { ax[0] = 1; ax[1] = ax[2] = 0; } ang = (R)c.uniform(-3.14159265358979, 3.14159265358979); c.cls("rotation:random"); }
	q[0] = (T)cosl(ang / 2); for (int i = 0; i < 3; ++i) q[1 + i] = (T)(ax[i] * sinl(ang / 2));
	if (c.draw(3) != 0) { gen_vec<T>(c, 3, t, 4); c.cls("translation:non-zero"); } else c.cls("translation:zero");
	bool skew = c.draw(5) < 2, persp = c.draw(5) < 2;
	if (skew) for (int i = 0; i < 3; ++i) k[i] = c.draw(4) == 0 ? T(0) : (T)c.uniform(-2.0, 2.0);
	if (persp) { for (int i = 0; i < 3; ++i) p[i] = c.draw(4) == 0 ? T(0) : (T)c.uniform(-0.5, 0.5); if (c.coin()) p[3] = (T)c.loguniform(0.5, 2.0); }
	skew = k[0] != 0 || k[1] != 0 || k[2] != 0; persp = p[0] != 0 || p[1] != 0 || p[2] != 0 || p[3] != 1;
	{ R w = (R)p[0] * t[0] + (R)p[1] * t[1] + (R)p[2] * t[2] + (R)p[3]; if (rabs(w) < 0.25L) { p[0] = p[1] = p[2] = 0; persp = p[3] != 1; } }
	c.cls(skew ? "skew != 0" : "skew = 0"); c.cls(persp ? "perspective != (0,0,0,1)" : "perspective = (0,0,0,1)");
	if (c.verbose) c.logf("%s", cstr(s, q, t, k, p).c_str());
	Comps K0; lift(s, K0.s); lift(q, K0.q); lift(t, K0.t); lift(k, K0.k); lift(p, K0.p);
	M4 ap; const M4 M0 = compose(K0, &ap);
	if (sk >= 2 && rk >= 2 && !is_zero(t, 3)) c.nontrivial();
	typedef glm::vec<3, T> V3; typedef glm::vec<4, T> V4; typedef glm::qua<T> Q;

	// --- recompose(components) against the reference composition: 7 chained 4-term products (28u) + the rotation entries from a quaternion that is unit only to 2u per component (1 - 2(yy+zz): 10u absolute)
	if constexpr (HaveR) {
		T g[16]; to16(glm::recompose(G<T, 3>(s), Q::wxyz(q[0], q[1], q[2], q[3]), G<T, 3>(t), G<T, 3>(k), G<T, 4>(p)), g);
		for (int cc = 0; cc < 4; ++cc) for (int r = 0; r < 4; ++r)
			if (!within(c, "recompose err/tol", rabs((R)g[4 * cc + r] - M0.m[cc][r]), 8 * 38 * u * ap.m[cc][r] + TINY<T>())) {
				c.failk(std::string("recompose/") + (skew ? "skew" : "noskew") + (persp ? "+perspective" : ""), "recompose(%s)[%d][%d]=%.17g, P*T*R*K*S has %.17Lg (bound %.3Lg)", cstr(s, q, t, k, p).c_str(), cc, r, (double)g[4 * cc + r], M0.m[cc][r], 8 * 38 * u * ap.m[cc][r]);
				cc = 4; break;
			}
	}
	// --- decompose(M), M = the composition rounded to T
	if constexpr (HaveD) {
		T a[16]; for (int cc = 0; cc < 4; ++cc) for (int r = 0; r < 4; ++r) a[4 * cc + r] = (T)M0.m[cc][r];
		const M4 M = lift16(a);
		const R w = M.m[3][3];
		M4 Ln = scaled(M, 1 / w), PM = Ln;  // what GLM decomposes: M / M[3][3]; PM = its affine part
		for (int i = 0; i < 3; ++i) PM.m[i][3] = 0;
		PM.m[3][3] = 1;
		const R dn = det3(PM), eps = fp::eps<T>();
		const R kappa3 = cond(PM, 3), kappa = persp ? kappa3 + cond(PM, 4) : kappa3;  // Gram-Schmidt sees the 3x3 block; the perspective solve inverts the whole affine part
		V3 gs(7), gt(7), gk(7); V4 gp(7); Q gq = Q::wxyz(7, 7, 7, 7);
		bool ok = glm::decompose(g4(a), gs, gq, gt, gk, gp);
		if (c.verbose) c.logf("M=%s cond=%.3Lg", mstr(a).c_str(), kappa);
		if (!ok) {
			if (rabs(w) > 4 * eps && rabs(dn) > 4 * eps) c.failk(std::string("decompose/returned-false"), "decompose(%s) = false although M[3][3]=%.6Lg and the determinant of the normalised affine part is %.6Lg (epsilon %.3Lg)", mstr(a).c_str(), w, dn, eps);
			else c.cls("decompose=false: |det| or |M33| at GLM's epsilon test");
			return;
		}
		T os[4] = {gs.x, gs.y, gs.z, 0}, oq[4] = {gq.w, gq.x, gq.y, gq.z}, ot[4] = {gt.x, gt.y, gt.z, 0}, ok3[4] = {gk.x, gk.y, gk.z, 0}, op[4] = {gp.x, gp.y, gp.z, gp.w};
		Comps K1; lift(os, K1.s); lift(oq, K1.q); lift(ot, K1.t); lift(ok3, K1.k); lift(op, K1.p);
		M4 ap1; const M4 M1 = compose(K1, &ap1);
		{ R tr = quat_rotation(K1.q[0], K1.q[1], K1.q[2], K1.q[3]).m[0][0] + quat_rotation(K1.q[0], K1.q[1], K1.q[2], K1.q[3]).m[1][1] + quat_rotation(K1.q[0], K1.q[1], K1.q[2], K1.q[3]).m[2][2];
		  if (tr > 0.05L) c.cls("quaternion extraction: trace > 0"); else if (tr < -0.05L) { R qa = rmax(rmax(rabs(K1.q[1]), rabs(K1.q[2])), rabs(K1.q[3])); c.cls(qa == rabs(K1.q[1]) ? "quaternion extraction: trace <= 0, x largest" : qa == rabs(K1.q[2]) ? "quaternion extraction: trace <= 0, y largest" : "quaternion extraction: trace <= 0, z largest"); } }
		const std::string cls = std::string(skew ? "skew" : "noskew") + (persp ? "+perspective" : "") + (dn < 0 ? "/det<0" : "");
		// Gram-Schmidt on a 3x3 with condition kappa3 loses ~ n^(3/2) kappa3 u of orthogonality (5 kappa3 u for n = 3) and the quaternion forces it back; perspective is solved with inverse(PM) (cond4 u)
		const R tol = 8 * (5 * kappa + 40) * u * maxabs(Ln);
		R worst = 0; int wc = 0, wr = 0;
		for (int cc = 0; cc < 4; ++cc) for (int r = 0; r < 4; ++r) { R e = rabs(M1.m[cc][r] - Ln.m[cc][r]); if (e > worst || !(e == e)) { worst = e == e ? e : INFINITY; wc = cc; wr = r; } }
		if (!within(c, "decompose: compose(components) vs M/M33 err/tol", worst, tol))
			c.failk("decompose/" + cls + "/components-rebuild-M", "decompose(%s) -> %s; P*T*R*K*S of these has [%d][%d]=%.17Lg, M/M[3][3] has %.17Lg (bound %.3Lg, cond %.3Lg)", mstr(a).c_str(), cstr(os, oq, ot, ok3, op).c_str(), wc, wr, M1.m[wc][wr], Ln.m[wc][wr], tol, kappa);
		if (rabs(w - 1) > 1e-3L) c.cls("M[3][3] != 1 (compared with M / M[3][3])");
		// components that are read off directly
		R qn = sqrtl(K1.q[0] * K1.q[0] + K1.q[1] * K1.q[1] + K1.q[2] * K1.q[2] + K1.q[3] * K1.q[3]);
		if (!within(c, "decompose |orientation|-1 err/tol", rabs(qn - 1), 8 * (5 * kappa + 16) * u)) c.failk("decompose/" + cls + "/orientation-unit", "decompose(%s): |orientation| = %.17Lg", mstr(a).c_str(), qn);
		for (int i = 0; i < 3; ++i) { T want = (T)(a[12 + i] / a[15]); if (!persp && !fp::same_value(ot[i], want)) { c.failk("decompose/" + cls + "/translation", "decompose(%s): translation[%d]=%.17g, expected M[3][%d]/M[3][3]=%.17g", mstr(a).c_str(), i, (double)ot[i], i, (double)want); break; } }
		if (!persp && !(op[0] == 0 && op[1] == 0 && op[2] == 0 && op[3] == 1)) c.failk("decompose/" + cls + "/perspective-0001", "decompose(%s): perspective=%s for a matrix with last row (0,0,0,w)", mstr(a).c_str(), vstr(op, 4).c_str());
		{ R c0[4] = {Ln.m[0][0], Ln.m[0][1], Ln.m[0][2], 0}; R l0 = norm(c0, 3);
		  if (!within(c, "decompose |scale.x| err/tol", rabs(rabs(K1.s[0]) - l0), 8 * 4 * u * l0)) c.failk("decompose/" + cls + "/scale.x=|column0|", "decompose(%s): scale.x=%.17g, |first column|/M33 = %.17Lg", mstr(a).c_str(), (double)os[0], l0); }
		if (rabs(dn) > 64 * eps && !((K1.s[0] * K1.s[1] * K1.s[2] < 0) == (dn < 0))) c.failk("decompose/" + cls + "/scale-sign", "decompose(%s): scale=%s but the determinant is %.6Lg", mstr(a).c_str(), vstr(os, 3).c_str(), dn);
		// --- round trip through GLM's own recompose
		if constexpr (HaveR) {
			T g[16]; to16(glm::recompose(gs, gq, gt, gk, gp), g);
			worst = 0;
			for (int cc = 0; cc < 4; ++cc) for (int r = 0; r < 4; ++r) { R e = rabs((R)g[4 * cc + r] - Ln.m[cc][r]); if (e > worst || !(e == e)) { worst = e == e ? e : INFINITY; wc = cc; wr = r; } }
			R tol2 = tol + 8 * 38 * u * maxabs(ap1);
			if (!within(c, "recompose(decompose(M)) vs M/M33 err/tol", worst, tol2))
				c.failk("roundtrip/" + cls, "recompose(decompose(M))[%d][%d]=%.17g, M/M[3][3] has %.17Lg (bound %.3Lg, cond %.3Lg), M=%s", wc, wr, (double)g[4 * wc + wr], Ln.m[wc][wr], tol2, kappa, mstr(a).c_str());
		}
	}
	if constexpr (!HaveD && !HaveR) c.skip();
}
#define DECOMP_RULE "components: scale 1 / uniform / positive / mixed sign with |s_i| in [0.1,10] (negative determinants), rotation identity / coordinate axis k*pi/2 / random axis-angle (all four branches of the quaternion extraction), " \
	"translation zero / 2^-4..2^4, skew none / three values in +-2, perspective none / (px,py,pz) in +-0.5 with w = 1 or 0.5..2 (|M33| >= 0.25); recompose against P*T*R*K*S in long double (chained-product bound); decompose of the " \
	"composition rounded to T: must return true unless |M33| or the normalised determinant is at its own epsilon test, its components must rebuild M/M[3][3] within 8(5 cond+40)u (cond = Frobenius condition of the 3x3 block, plus that of the affine part when perspective is present), orientation unit, translation exact, " \
	"perspective exactly (0,0,0,1) for affine M, |scale.x| = |column 0|, scale sign = determinant sign; recompose(decompose(M)) against M/M[3][3]; non-trivial = non-uniform scale, random rotation, non-zero translation"
static void decomp_f(pbt::Ctx& c) { decomp_p<float, HAVE_decompose_float_highp, HAVE_recompose_float_highp>(c); }
static void decomp_d(pbt::Ctx& c) { decomp_p<double, HAVE_decompose_double_highp, HAVE_recompose_double_highp>(c); }
PBT_RANDOM(C09_CFG "/decompose_recompose/float", decomp_f, 400000, 12000000, DECOMP_RULE);
PBT_RANDOM(C09_CFG "/decompose_recompose/double", decomp_d, 400000, 12000000, DECOMP_RULE);

// ---- instantiation: decompose / recompose are declared for every T, Q (registered by the right-handed build only: the handedness macro does not reach these templates)
#ifndef C09_EXPECT_LH
struct Inst { const char* name; int have; };
static const Inst INSTS[] = {
#define XI(fn, ty) {#fn "<" #ty ">", HAVE_##fn##_##ty},
	HAVE_LIST(XI)
#undef XI
};
static void prop_inst(pbt::Ctx& c) {
	const int N = sizeof(INSTS) / sizeof(INSTS[0]);
	int i = (int)c.draw(N);
	c.logf("instantiate %s: %s", INSTS[i].name, INSTS[i].have ? "compiles" : "hard error");
	c.nontrivial();
	c.cls(INSTS[i].have ? "instantiates" : "hard error");
	if (!INSTS[i].have) c.failk(std::string("uninstantiable/") + INSTS[i].name, "%s is declared for this element type and qualifier but its body does not compile", INSTS[i].name);
}
PBT_SWEEP(C09_CFG "/instantiation", prop_inst, sizeof(INSTS) / sizeof(INSTS[0]), 1, 1, "decompose and recompose instantiated with -fsyntax-only for T in {float,double} x Q in {highp,mediump,lowp} by the pre-pass; all are non-trivial");
#endif

// =============================================================================================
// matrix_interpolation
// error of GLM's axisAngle on a rotation with canonical angle th in [0,pi], s = sin th (matrix entries known to u):
//   general branch: cos from the trace (3u) -> angle error min(6u/s, 2 sqrt(3u)); axis = normalize(antisymmetric part 2 s n, entries +-2u) -> direction error 4u/s
//   near-symmetric branch (every |m_ij - m_ji| < 100 eps): exactly 0 or pi is returned with the axis from the symmetric part: off by th resp. pi - th (<= ~100 eps)
//   which branch: decided on the largest |m_ij - m_ji| of the input, `lo`/`hi` (in units of eps) leave a band around GLM's 100 eps where either is accepted
struct AAErr { R angle, axis; int zone; /* 0 general, 1 near-symmetric branch for sure, 2 either */ R dist; };
static AAErr aa_err(const M4& Rm, R th, R u, R lo, R hi) {  // u: roundoff of the matrix entries; lo/hi: absolute thresholds on the largest |m_ij - m_ji|
	AAErr e; R s = rabs(sinl(th));
	R d = rmax(rmax(rabs(Rm.m[1][0] - Rm.m[0][1]), rabs(Rm.m[2][0] - Rm.m[0][2])), rabs(Rm.m[2][1] - Rm.m[1][2]));  // what the branch test looks at
	R a1 = s > 0 ? 6 * u / s : INFINITY, a2 = 2 * sqrtl(3 * u);
	e.angle = a1 < a2 ? a1 : a2;
	e.axis = s > 2 * u ? 4 * u / s : 2;  // a direction cannot be off by more than 2
	e.zone = d <= lo ? 1 : (d >= hi ? 0 : 2);
	e.dist = th < PI_R - th ? th : PI_R - th;
	return e;
}
// bound on |R(axis_out, f * angle_out) - R(axis, f * angle)| (f = 1 for axisAngle itself, delta for interpolate), `fixed` = rounding of the remaining steps
static R aa_bound(const AAErr& e, R f, R th, R fixed) {
	R td = f * th;
	R gen = 8 * (rabs(f) * e.angle + e.axis * (rabs(sinl(td)) + rabs(1 - cosl(td))) + fixed);
	R sym = 8 * fixed + 4.2L * rabs(f) * e.dist;  // exactly 0 or pi is returned: off by the distance of the true angle from it (|R(n,x) - I| <= 1.05 x for x < 0.1), x4 margin
	return e.zone == 0 ? gen : e.zone == 1 ? sym : gen + sym;
}
template <class T> static void interp_p(pbt::Ctx& c) {
	const R u = U<T>(), eps = 2 * u;
	// rotation (n, theta), theta classes around 0 and pi
	T axv[4], ang;
	gen_vec<T>(c, 3, axv, 6);
	int k = (int)c.draw(8);
	if (k == 0) { ang = (T)(c.coin() ? PI_R : -PI_R); c.cls("theta:pi"); }
	else if (k == 1) { R d = (R)c.loguniform(1e-9, 1e-2); ang = (T)(PI_R + (c.coin() ? d : -d)); c.cls("theta:pi+-(1e-9..1e-2)"); }
	else if (k == 2) { ang = (T)c.loguniform(1e-9, 1e-2); if (c.coin()) ang = -ang; c.cls("theta:small"); }
	else { int ac = gen_angle<T>(c, &ang); c.cls(AC_NAME[ac]); }
	R rax[4], n[4]; lift(axv, rax); unit3(rax, n);
	if (c.verbose) c.logf("axis=%s angle=%.17g", vstr(axv, 3).c_str(), (double)ang);
	const M4 E = rotation((R)ang, n);
	bool oblique = nonzeros(axv, 3) == 3 && distinct_mags(axv, 3);
	// --- axisAngleMatrix(axis, angle): Rodrigues with the axis normalised by GLM
	T g[16];
	to16(glm::axisAngleMatrix(G<T, 3>(axv), ang), g);
	{
		M4 dE = rotation_bound((R)ang, n, E, u);
		bool ok = true;
		for (int cc = 0; cc < 4 && ok; ++cc) for (int r = 0; r < 4 && ok; ++r)
			if (!within(c, "axisAngleMatrix err/tol", rabs((R)g[4 * cc + r] - E.m[cc][r]), 8 * dE.m[cc][r] + (cc < 3 && r < 3 ? TINY<T>() : 0))) { ok = false; c.failk(std::string("axisAngleMatrix/R(axis,angle)"), "axisAngleMatrix(%s,%.9g)[%d][%d]=%.17g, expected %.17Lg", vstr(axv, 3).c_str(), (double)ang, cc, r, (double)g[4 * cc + r], E.m[cc][r]); }
	}
	// --- extractMatrixRotation: copy of the upper 3x3, affine rest
	T a[16]; int mc = gen_mat<T>(c, a); c.cls(MC_NAME[mc]);
	{
		T x[16]; to16(glm::extractMatrixRotation(g4(a)), x);
		for (int cc = 0; cc < 4; ++cc) for (int r = 0; r < 4; ++r) {
			T want = (cc < 3 && r < 3) ? a[4 * cc + r] : (cc == r ? T(1) : T(0));
			if (!fp::same_bits(x[4 * cc + r], want)) { c.failk(std::string("extractMatrixRotation/upper3x3-copied"), "extractMatrixRotation(%s)[%d][%d]=%.17g, expected %.17g", mstr(a).c_str(), cc, r, (double)x[4 * cc + r], (double)want); cc = 4; break; }
		}
	}
	// --- axisAngle(R): R = the rotation rounded to T
	T rm[16]; for (int cc = 0; cc < 4; ++cc) for (int r = 0; r < 4; ++r) rm[4 * cc + r] = (T)E.m[cc][r];
	const M4 Rm = lift16(rm);
	R cn[4], cth; axis_angle(Rm, cn, &cth);   // canonical (axis, angle in [0,pi]) of the rounded matrix
	{
		glm::vec<3, T> oa(7); T oang = 7;
		glm::axisAngle(g4(rm), oa, oang);
		T oav[4] = {oa.x, oa.y, oa.z, 0};
		R ra[4], rn[4]; lift(oav, ra);
		AAErr e = aa_err(Rm, cth, u, 98 * eps, 102 * eps);
		R bound = aa_bound(e, 1, cth, 30 * u);
		c.cls(e.zone == 0 ? "axisAngle: general branch" : e.zone == 1 ? "axisAngle: near-symmetric branch (0 or pi returned)" : "axisAngle: at the branch threshold (either accepted)");
		if (bound > 1e-2L) c.cls("axisAngle: ill-conditioned (bound > 1e-2)"); else if (oblique) c.nontrivial();
		if (!(oang >= 0 && oang <= (T)PI_R)) c.failk(std::string("axisAngle/angle-in-[0,pi]"), "axisAngle(R(%s,%.9g)): angle=%.17g", vstr(axv, 3).c_str(), (double)ang, (double)oang);
		if (!unit3(ra, rn) || !within(c, "axisAngle |axis|-1 err/tol", rabs(norm(ra, 3) - 1), 8 * 16 * u)) c.failk(std::string("axisAngle/axis-unit"), "axisAngle(R(%s,%.9g)): axis=%s has length %.17Lg", vstr(axv, 3).c_str(), (double)ang, vstr(oav, 3).c_str(), norm(ra, 3));
		else {
			M4 Back = rotation((R)oang, rn);
			R worst = 0; for (int cc = 0; cc < 3; ++cc) for (int r = 0; r < 3; ++r) worst = rmax(worst, rabs(Back.m[cc][r] - Rm.m[cc][r]));
			if (!within(c, "axisAngle rebuild err/tol", worst, bound))
				c.failk(std::string("axisAngle/rebuilds-rotation/") + (e.zone == 1 ? "near-symmetric" : e.zone == 0 ? "general" : "threshold"), "axisAngle(R(%s,%.9g)) = (%s, %.17g): the rotation it names differs from R by %.3Lg (bound %.3Lg, canonical angle %.9Lg)", vstr(axv, 3).c_str(), (double)ang, vstr(oav, 3).c_str(), (double)oang, worst, bound, cth);
		}
	}
	// --- interpolate(m1, m2, delta): m1 = rigid (rotation A, translation ta), m2 = R(n, theta) A with translation tb
	{
		T m1[16], m2[16], tb[4];
		for (int i = 0; i < 16; ++i) m1[i] = (i % 5 == 0) ? T(1) : T(0);
		R w[4] = {(R)c.uniform(-1, 1), (R)c.uniform(-1, 1), (R)c.uniform(-1, 1), 0}, wn[4];
		if (!unit3(w, wn)) { wn[0] = 1; wn[1] = wn[2] = 0; }
		M4 A = c.draw(4) == 0 ? ident4() : rotation((R)c.uniform(-3.14159265358979, 3.14159265358979), wn);
		for (int cc = 0; cc < 3; ++cc) for (int r = 0; r < 3; ++r) m1[4 * cc + r] = (T)A.m[cc][r];
		for (int r = 0; r < 3; ++r) { m1[12 + r] = c.coin() ? (T)c.range(-8, 8) : (T)c.uniform(-8.0, 8.0); tb[r] = c.coin() ? (T)c.range(-8, 8) : (T)c.uniform(-8.0, 8.0); }
		const M4 A1 = lift16(m1);
		M4 A1r = A1; for (int r = 0; r < 3; ++r) A1r.m[3][r] = 0;
		M4 B = mul(E, A1r);
		for (int i = 0; i < 16; ++i) m2[i] = (i % 5 == 0) ? T(1) : T(0);
		for (int cc = 0; cc < 3; ++cc) for (int r = 0; r < 3; ++r) m2[4 * cc + r] = (T)B.m[cc][r];
		for (int r = 0; r < 3; ++r) m2[12 + r] = tb[r];
		const M4 B1 = lift16(m2);
		M4 B1r = B1; for (int r = 0; r < 3; ++r) B1r.m[3][r] = 0;
		T dl; int dk = (int)c.draw(6);
		if (dk == 0) { dl = 0; c.cls("delta:0"); } else if (dk == 1) { dl = 1; c.cls("delta:1"); } else if (dk == 2) { dl = T(0.5); c.cls("delta:1/2"); }
		else if (dk <= 4) { dl = (T)c.unit(); c.cls("delta:(0,1)"); } else { dl = (T)c.uniform(-1.0, 2.0); c.cls("delta:[-1,2]"); }
		if (c.verbose) c.logf("interpolate: m1=%s m2=%s delta=%.17g", mstr(m1).c_str(), mstr(m2).c_str(), (double)dl);
		T o[16]; to16(glm::interpolate(g4(m1), g4(m2), dl), o);
		const M4 O = lift16(o);
		// translation: m1 + delta (m2 - m1), three roundings
		for (int r = 0; r < 3; ++r) {
			R want = A1.m[3][r] + (R)dl * (B1.m[3][r] - A1.m[3][r]);
			if (!within(c, "interpolate translation err/tol", rabs(O.m[3][r] - want), 8 * 3 * u * (rabs(A1.m[3][r]) + rabs((R)dl) * (rabs(B1.m[3][r]) + rabs(A1.m[3][r]))) + TINY<T>())) { c.failk(std::string("interpolate/translation-linear"), "interpolate(m1,m2,%.9g)[3][%d]=%.17g, expected %.17Lg (m1: %.9g, m2: %.9g)", (double)dl, r, (double)o[12 + r], want, (double)m1[12 + r], (double)m2[12 + r]); break; }
		}
		if (!(o[3] == 0 && o[7] == 0 && o[11] == 0 && o[15] == 1)) c.failk(std::string("interpolate/last-row-0001"), "interpolate(m1,m2,%.9g): last row (%.9g,%.9g,%.9g,%.9g)", (double)dl, (double)o[3], (double)o[7], (double)o[11], (double)o[15]);
		// rotation: Rodrigues(axis of B A^T, delta * angle) * A
		M4 Rel = mul(B1r, transpose(A1r));
		R rn[4], rth; axis_angle(Rel, rn, &rth);
		AAErr e = aa_err(Rel, rth, 4 * u, 80 * eps, 120 * eps);  // the relative rotation is itself a 3-term product of rounded entries (4u per entry)
		bool near_pi = rth > PI_R - 1e-3L;
		if (near_pi && dl != 0) { c.cls("interpolate: relative rotation within 1e-3 of pi (axis sign not determined, rotation part not compared)"); return; }
		R bound = aa_bound(e, (R)dl, rth, 48 * u);
		const R td = (R)dl * rth;
		if (bound > 1e-2L) { c.cls("interpolate: ill-conditioned (bound > 1e-2)"); return; }
		if (dl != 0 && dl != 1 && rth > 1e-3L) c.nontrivial();
		M4 Want = mul(rotation(td, rn), A1r);
		R worst = 0; int wc = 0, wr = 0;
		for (int cc = 0; cc < 3; ++cc) for (int r = 0; r < 3; ++r) { R d = rabs(O.m[cc][r] - Want.m[cc][r]); if (!(d <= worst)) { worst = d == d ? d : INFINITY; wc = cc; wr = r; } }
		const char* dcls = dl == 0 ? "delta=0" : dl == 1 ? "delta=1" : "delta-general";
		if (!within(c, "interpolate rotation err/tol", worst, bound))
			c.failk(std::string("interpolate/rotation/") + dcls, "interpolate(m1,m2,%.9g)[%d][%d]=%.17g, expected %.17Lg = (R(axis,delta*angle)*R1) with relative angle %.9Lg (bound %.3Lg); m1=%s m2=%s", (double)dl, wc, wr, (double)o[4 * wc + wr], Want.m[wc][wr], rth, bound, mstr(m1).c_str(), mstr(m2).c_str());
	}
}
#define INTERP_RULE "axis of any length (2^-6..2^6, small ints, axis-aligned) x angle (exactly +-pi, pi +- 1e-9..1e-2, +-1e-9..1e-2, 0, multiples of pi/2 and pi/12, one turn, +-4 turns): axisAngleMatrix against Rodrigues in long double; " \
	"extractMatrixRotation bit for bit on 8 classes of matrices; axisAngle of the rotation rounded to T: angle in [0,pi], unit axis, and the rotation it names must rebuild the input (bound: angle error min(6u/sin, 2 sqrt(3u)), axis error 4u/sin, " \
	"+220 eps inside the near-symmetric zone where 0 or pi is returned); interpolate(m1, R m1, delta) for rigid m1 and delta in {0, 1, 1/2, (0,1), [-1,2]}: translation linear, last row (0,0,0,1), rotation = R(axis, delta*angle) R1 " \
	"(relative angle within 1e-3 of pi: not compared); non-trivial = axis with three distinct non-zero components and bound < 1e-2 / delta not 0 or 1"
static void interp_f(pbt::Ctx& c) { interp_p<float>(c); }
static void interp_d(pbt::Ctx& c) { interp_p<double>(c); }
PBT_RANDOM(C09_CFG "/axisAngle_interpolate/float", interp_f, 300000, 10000000, INTERP_RULE);
PBT_RANDOM(C09_CFG "/axisAngle_interpolate/double", interp_d, 300000, 10000000, INTERP_RULE);

int main(int argc, char** argv) { return pbt::pbt_main(argc, argv, "C09"); }
