// C18 (part 3 of 3) — gtx/integer (pow, sqrt, mod, factorial, nlz) and the floating-point overloads of
// gtc/round ceil/floor/roundMultiple.
//
// Domain decisions:
//  * pow(x,y): judged when x^y is representable in the result type (x^0 = 1 for every x). Signed overflow / wrap counted only.
//  * sqrt(x): x >= 0; "positive square root" of a non-square is taken as floor (r*r <= x < (r+1)^2 is checked directly).
//  * mod(x,y): y != 0, documented as x - y*floor(x/y). (INT_MIN, -1) is probed in a forked child because `%` traps there.
//  * factorial(x): documented "!12 max": 0..12 (fewer where the element type is narrower); 13..20 on 64-bit types is a separate key.
//  * float multiples: Multiple > 0, x finite, |x|/Multiple <= 2^40, NaN/inf never generated. The exact multiple is formed with integer
//    arithmetic on the decoded operands; an exact multiple must be returned unchanged; otherwise tolerance = 8 ulp of
//    max(|x|, Multiple, |result|): the documented formula x +- (Multiple - fmod(x, Multiple)) has an exact fmod and two roundings, each at most half an
//    ulp of that scale (analytic bound 1 ulp, x8 margin). Ties accept either neighbour.
#include "fp.hpp"
#include "ref/refc18.hpp"
#include <glm/glm.hpp>
#include <glm/ext/scalar_int_sized.hpp>
#include <glm/ext/scalar_uint_sized.hpp>
#include <glm/gtc/round.hpp>
#include <glm/gtx/integer.hpp>
#include <sys/wait.h>
#include <signal.h>
#include <algorithm>

using c18::D;
using c18::ull;
template <class T> static const char* tn() { return c18::TN<T>::name(); }

// =====================================================================================================
// gtx/integer
// =====================================================================================================
static void prop_pow(pbt::Ctx& c) {
	c18::begin_random_case();
	// operands: small bases with exponents around the representability edge, 0/1/-1 with large exponents, random
	int64_t x; uint32_t y;
	switch (c.draw(5)) {
	case 0: x = c.range(-3, 3); y = (uint32_t)c.draw(40); break;
	case 1: x = c.range(-1, 1); y = (uint32_t)c.draw(2000); break;
	case 2: x = c.range(-16, 16); y = (uint32_t)c.draw(12); break;
	case 3: { x = c.range(-50000, 50000); y = (uint32_t)c.draw(4); break; }
	default: { y = 1 + (uint32_t)c.draw(31); double lim = std::pow(2147483648.0, 1.0 / y); int64_t b = (int64_t)lim; x = b + c.range(-1, 1); if (c.coin()) x = -x; break; }  // base at the overflow edge for this exponent
	}
	if (c.verbose) c.logf("pow(%lld, %u)", (long long)x, y);
	if (y >= 2 && (x > 1 || x < -1)) c.nontrivial();
	// int
	{
		bool over; int64_t want = c18::ipow(x, y, 2147483647LL, &over);
		if (over) c.cls("int: x^y not representable (not judged)");
		else {
			int got = glm::pow((int)x, (glm::uint)y);
			const char* k = y == 0 ? (x < 0 ? "y=0/x<0" : "y=0/x>=0") : (x < 0 ? "y>0/x<0" : "y>0/x>=0");
			c.cls(k);
			if ((int64_t)got != want) C18_FAIL(c, "pow", "int", k, 0, "pow(int %lld, %u)=%d, expected %lld", (long long)x, y, got, (long long)want);
		}
	}
	// uint
	if (x >= 0) {
		bool over; int64_t want = c18::ipow(x, y, 4294967295LL, &over);
		if (over) c.cls("uint: x^y not representable (not judged)");
		else {
			glm::uint got = glm::pow((glm::uint)x, (glm::uint)y);
			if ((int64_t)got != want) C18_FAIL(c, "pow", "uint", y == 0 ? "y=0" : "y>0", 0, "pow(uint %lld, %u)=%u, expected %lld", (long long)x, y, got, (long long)want);
		}
	}
}
PBT_RANDOM("gtx_integer/pow", prop_pow, 400000, 20000000, "pow(int,uint) and pow(uint,uint): small bases x exponents up to 40, 0/+-1 with exponents up to 2000, bases at the overflow edge of each exponent; judged when x^y is representable; non-trivial = |x|>=2 and y>=2");

// exponents of 2^31 and more with the bases 0, 1, -1 (the only ones whose power stays representable): the documented loop runs y - 1
// times, about a second each, so the domain is four cases; the parity of y decides the sign for x = -1
static void prop_pow_huge(pbt::Ctx& c) {
	static const struct { int x; uint32_t y; int want; } K[4] = {{-1, 2147483648u, 1}, {-1, 2147483649u, -1}, {1, 4294967295u, 1}, {0, 3000000000u, 0}};
	const int i = (int)c.draw(4);
	c.logf("pow(int %d, %u)", K[i].x, K[i].y);
	c.nontrivial();
	volatile int xv = K[i].x; volatile uint32_t yv = K[i].y;  // run-time values: the loop is really executed
	int got = glm::pow((int)xv, (glm::uint)yv);
	if (got != K[i].want) c.failk(std::string("pow/int/y>=2^31/x=") + std::to_string(K[i].x), "pow(int %d, %u)=%d, expected %d", K[i].x, K[i].y, got, K[i].want);
}
PBT_SWEEP("gtx_integer/pow_huge_exponent", prop_pow_huge, 4, 2, 1, "pow(int, uint) for x in {-1, 1, 0} and y >= 2^31 (four cases, two of them in the quick tier, chosen by the seed); non-trivial = every case");

static void judge_sqrt(pbt::Ctx& c, uint64_t x) {
	{ uint64_t r = (uint64_t)std::sqrt((double)x); while (r * r > x) --r; while ((r + 1) * (r + 1) <= x) ++r; c.cls(r * r == x ? "perfect-square" : (r * r + 2 * r == x ? "one-below-a-square" : "between-squares")); if (x > 2147483647ULL) c.cls("above-INT_MAX(uint only)"); }
	if (x <= 2147483647ULL) {
		int r = glm::sqrt((int)x);
		if (r < 0 || !c18::isFloorSqrt(x, (uint64_t)r)) C18_FAIL(c, "sqrt", "int", "", 0, "sqrt(int %llu)=%d, not the floor square root (r*r <= x < (r+1)^2 fails)", (unsigned long long)x, r);
	}
	if (x <= 4294967295ULL) {
		glm::uint r = glm::sqrt((glm::uint)x);
		if (!c18::isFloorSqrt(x, (uint64_t)r)) C18_FAIL(c, "sqrt", "uint", "", 0, "sqrt(uint %llu)=%u, not the floor square root (r*r <= x < (r+1)^2 fails)", (unsigned long long)x, r);
	}
}
static void prop_sqrt_sq(pbt::Ctx& c) {
	uint64_t k = c.draw(65536); c18::begin_sweep_case(k);
	if (c.verbose) c.logf("sqrt around %llu^2", (unsigned long long)k);
	if (k >= 2) c.nontrivial();
	uint64_t s = k * k;
	uint64_t pts[6] = {s ? s - 1 : 0, s, s + 1, s + k, s + 2 * k, k};
	for (int i = 0; i < 6; ++i) judge_sqrt(c, pts[i]);
}
PBT_SWEEP("gtx_integer/sqrt-near-squares", prop_sqrt_sq, 65536, 1, 1, "for every k < 65536: sqrt(int) and sqrt(uint) at k^2-1, k^2, k^2+1, k^2+k, k^2+2k and k itself (where representable); floor square root checked by r*r <= x < (r+1)^2; non-trivial = k>=2");
static void prop_sqrt_all(pbt::Ctx& c) {
	uint64_t x = c.draw(1ULL << 32); c18::begin_sweep_case(x);
	if (c.verbose) c.logf("sqrt(%llu)", (unsigned long long)x);
	if (x >= 2) c.nontrivial();
	judge_sqrt(c, x);
}
PBT_SWEEP("gtx_integer/sqrt-all", prop_sqrt_all, 1ULL << 32, 2048, 8, "sqrt(uint) (and sqrt(int) below 2^31) over the 32-bit range, quick: one value per 2048, thorough: one per 8; non-trivial = x>=2");

static void prop_mod(pbt::Ctx& c) {
	c18::begin_random_case();
	int64_t x, y;
	auto gen = [&](bool divisor) -> int64_t {
		switch (c.draw(5)) {
		case 0: return c.range(-20, 20);
		case 1: { static const int64_t E[] = {2147483647LL, -2147483647LL - 1, 2147483646LL, -2147483647LL, 1073741824LL, 1073741823LL, 1073741825LL, -1073741824LL, -1073741825LL}; return E[c.draw(9)]; }
		case 2: return (int64_t)fp::gen_int<int32_t>(c);
		case 3: { int64_t m = (int64_t)1 << c.draw(31); return (c.coin() ? -m : m) + c.range(-1, 1); }
		default: return (int64_t)(int32_t)(uint32_t)c.draw(0);
		}
		(void)divisor;
	};
	x = gen(false); y = gen(true);
	if (x > 2147483647LL) x = 2147483647LL; if (x < -2147483648LL) x = -2147483648LL;
	if (y > 2147483647LL) y = 2147483647LL; if (y < -2147483648LL) y = -2147483648LL;
	if (y == 0) y = 1;
	if (x == -2147483648LL && y == -1) y = -2;  // `%` traps on this pair: probed separately in a child process
	if (c.verbose) c.logf("mod(%lld, %lld)", (long long)x, (long long)y);
	if (x % y != 0 && ((x < 0) != (y < 0))) c.nontrivial();  // floor and truncation differ
	{
		const bool big = (y > 1073741824LL || y < -1073741824LL);
		const char* k = x >= 0 ? (y > 0 ? (big ? "x>=0,y>0/|y|>2^30" : "x>=0,y>0") : (big ? "x>=0,y<0/|y|>2^30" : "x>=0,y<0")) : (y > 0 ? (big ? "x<0,y>0/|y|>2^30" : "x<0,y>0") : (big ? "x<0,y<0/|y|>2^30" : "x<0,y<0"));
		c.cls(k);
		int64_t want = c18::floorMod(x, y);
		int got = glm::mod((int)x, (int)y);
		if ((int64_t)got != want) C18_FAIL(c, "mod", "int", k, 0, "mod(int %lld, %lld)=%d, expected x - y*floor(x/y) = %lld", (long long)x, (long long)y, got, (long long)want);
	}
	{
		uint32_t ux = (uint32_t)x, uy = (uint32_t)y;  // any non-zero pattern is a valid unsigned pair
		uint32_t want = (uint32_t)((uint64_t)ux - (uint64_t)uy * ((uint64_t)ux / (uint64_t)uy));
		glm::uint got = glm::mod((glm::uint)ux, (glm::uint)uy);
		if (got != want) C18_FAIL(c, "mod", "uint", "", 0, "mod(uint %u, %u)=%u, expected %u", ux, uy, got, want);
	}
}
PBT_RANDOM("gtx_integer/mod", prop_mod, 1000000, 100000000, "mod(int,int) against x - y*floor(x/y) and mod(uint,uint): small values, extremes, 2^30 +- 1, powers of two +- 1, random, y != 0; non-trivial = signs differ and y does not divide x (floor differs from truncation)");

// (INT_MIN, -1): the mathematical result 0 is representable; `x % y` raises SIGFPE on x86
static int __attribute__((noinline)) call_mod(volatile int* p) { return glm::mod(p[0], p[1]); }
static void prop_mod_trap(pbt::Ctx& c) {
	c.draw(1);
	c.logf("mod(INT_MIN, -1) in a forked child");
	c.nontrivial();
	volatile int args[2] = {-2147483647 - 1, -1};
	fflush(nullptr);
	pid_t pid = fork();
	if (pid == 0) { int r = call_mod(args); _exit(r == 0 ? 0 : 1); }
	if (pid < 0) { c.skip(); return; }
	int st = 0; waitpid(pid, &st, 0);
	c.cls(WIFSIGNALED(st) ? "child-killed-by-signal" : "child-returned");
	if (WIFSIGNALED(st)) c.fail("mod/int/INT_MIN,-1/trap", "mod(INT_MIN, -1) terminates the process with signal %d; x - y*floor(x/y) = 0", WTERMSIG(st));
	else if (WEXITSTATUS(st) != 0) c.fail("mod/int/INT_MIN,-1/value", "mod(INT_MIN, -1) != 0");
}
PBT_SWEEP("gtx_integer/mod-INT_MIN", prop_mod_trap, 1, 1, 1, "the single pair (INT_MIN,-1), evaluated in a forked child so that a trap becomes a failure instead of ending the run");

template <class T> static void fact_one(pbt::Ctx& c, int n) {
	c18::u128 want = c18::factorial(n);
	if (want > (c18::u128)std::numeric_limits<T>::max()) { c.skip(); return; }
	if (c.verbose) c.logf("factorial(%s %d)", tn<T>(), n);
	if (n >= 3) c.nontrivial();
	const char* k = n <= 12 ? "n<=12" : "13<=n<=20";
	c.cls(k);
	T got = glm::factorial((T)n);
	if ((c18::u128)got != want) C18_FAIL(c, "factorial", tn<T>(), k, 0, "factorial(%d)=%s, expected %s", n, D(got), c18::dec128((c18::i128)want));
	// vec2/3/4 with neighbouring arguments (all inside the representable range: arguments <= n)
	int a[4] = {n, n > 0 ? n - 1 : 0, n / 2, n > 2 ? n - 2 : 1};
	glm::vec<2, T> r2 = glm::factorial(glm::vec<2, T>((T)a[0], (T)a[1]));
	glm::vec<3, T> r3 = glm::factorial(glm::vec<3, T>((T)a[1], (T)a[0], (T)a[2]));
	glm::vec<4, T> r4 = glm::factorial(glm::vec<4, T>((T)a[3], (T)a[2], (T)a[1], (T)a[0]));
	bool ok = (c18::u128)r2[0] == c18::factorial(a[0]) && (c18::u128)r2[1] == c18::factorial(a[1]) && (c18::u128)r3[0] == c18::factorial(a[1]) && (c18::u128)r3[1] == c18::factorial(a[0]) && (c18::u128)r3[2] == c18::factorial(a[2])
		&& (c18::u128)r4[0] == c18::factorial(a[3]) && (c18::u128)r4[1] == c18::factorial(a[2]) && (c18::u128)r4[2] == c18::factorial(a[1]) && (c18::u128)r4[3] == c18::factorial(a[0]);
	if (!ok) C18_FAIL(c, "factorial", tn<T>(), k, 1, "vec2/3/4 factorial wrong around n=%d: vec2=(%s,%s) vec4.w=%s", n, D(r2[0]), D(r2[1]), D(r4[3]));
}
static void prop_fact(pbt::Ctx& c) {
	uint64_t i = c.draw(8 * 21); c18::begin_sweep_case(i);
	int n = (int)(i % 21);
	switch (i / 21) {
	case 0: return fact_one<glm::int8>(c, n);
	case 1: return fact_one<glm::uint8>(c, n);
	case 2: return fact_one<glm::int16>(c, n);
	case 3: return fact_one<glm::uint16>(c, n);
	case 4: return fact_one<glm::int32>(c, n);
	case 5: return fact_one<glm::uint32>(c, n);
	case 6: return fact_one<glm::int64>(c, n);
	default: return fact_one<glm::uint64>(c, n);
	}
}
PBT_SWEEP("gtx_integer/factorial", prop_fact, 8 * 21, 1, 1, "every element type x every n in 0..20 whose factorial is representable (others discarded), scalar and vec2/3/4; non-trivial = n>=3");

static void prop_nlz(pbt::Ctx& c) {
	c18::begin_random_case();
	uint32_t x;
	switch (c.draw(4)) { case 0: x = 1u << c.draw(32); break; case 1: x = (uint32_t)(((uint64_t)1 << (1 + c.draw(32))) - 1); break; case 2: x = fp::gen_int<uint32_t>(c); break; default: x = (uint32_t)c.draw(0) >> c.draw(32); }
	if (c.verbose) c.logf("nlz(0x%08x)", x);
	if (x != 0 && x != 0xffffffffu) c.nontrivial();
	if (x == 0) c.cls("zero");
	unsigned want = (unsigned)c18::nlz32(x), got = glm::nlz((glm::uint)x);
	if (got != want) C18_FAIL(c, "nlz", "uint", x == 0 ? "x=0" : "x!=0", 0, "nlz(0x%08x)=%u, expected %u", x, got, want);
}
PBT_RANDOM("gtx_integer/nlz", prop_nlz, 300000, 20000000, "single bits, low runs of ones, structured and right-shifted random 32-bit values against a counting loop; non-trivial = not 0 / all-ones");

// =====================================================================================================
// floating-point ceil/floor/roundMultiple
// =====================================================================================================
struct Dec { bool neg; int64_t mant; int exp; };  // value = +-mant * 2^exp, mant < 2^53
static Dec decode(double v) {
	Dec d; d.neg = std::signbit(v); if (d.neg) v = -v;
	if (v == 0) { d.mant = 0; d.exp = 0; return d; }
	int e; double f = std::frexp(v, &e);
	d.mant = (int64_t)std::ldexp(f, 53); d.exp = e - 53;
	return d;
}
// floor(x/m) for finite x, m > 0 with |x|/m < 2^60; *exact = x is an integer multiple of m
static bool exact_quotient(double x, double m, c18::i128* qf, bool* exact, c18::i128* dlo, c18::i128* step) {
	if (x == 0) { *qf = 0; *exact = true; *dlo = 0; *step = 1; return true; }
	Dec X = decode(x), M = decode(m);
	if (std::fabs(x) < m) { *qf = X.neg ? -1 : 0; *exact = false; *dlo = -1; *step = 0; return true; }  // dlo/step unused: handled by the caller
	int sh = X.exp - M.exp;  // >= -52 here
	c18::i128 Xs = X.mant, Ms = M.mant;
	if (sh >= 0) { if (sh > 66) return false; Xs <<= sh; } else { if (-sh > 60) return false; Ms <<= -sh; }
	if (X.neg) Xs = -Xs;
	*qf = c18::floordiv<c18::i128>(Xs, Ms);
	*dlo = Xs - *qf * Ms; *step = Ms; *exact = *dlo == 0;
	return true;
}
template <class T> struct FR { T ceil, floor, round; };
template <class T> static const char* fsign(T x) { return x == 0 ? "x=0" : (x > 0 ? "x>0" : "x<0"); }
static const char* fcat(const char* a, const char* b) {
	struct E { const char *a, *b; char s[40]; };
	static thread_local E tab[64]; static thread_local int n = 0;
	for (int i = 0; i < n; ++i) if (tab[i].a == a && tab[i].b == b) return tab[i].s;
	E& e = tab[n < 63 ? n++ : 63]; e.a = a; e.b = b; snprintf(e.s, sizeof e.s, "%s/%s", a, b);
	return e.s;
}
// returns false when the pair is outside the judged domain
template <class T> static bool judge_fmult(pbt::Ctx& c, T x, T m, const FR<T>& r, int vec, bool* is_exact) {
	typedef __float128 Q;
	c18::i128 qf, dlo, step; bool exact;
	if (!(m > 0) || !fp::is_finite(x) || !fp::is_finite(m)) return false;
	if (std::fabs((double)x) / (double)m > 1099511627776.0) return false;
	if (!exact_quotient((double)x, (double)m, &qf, &exact, &dlo, &step)) return false;
	if (is_exact) *is_exact = exact;
	const Q lo = (Q)qf * (Q)m, hi = exact ? lo : (Q)(qf + 1) * (Q)m;
	const Q ax = x < 0 ? -(Q)x : (Q)x, alo = lo < 0 ? -lo : lo, ahi = hi < 0 ? -hi : hi;
	Q scale = ax; if ((Q)m > scale) scale = (Q)m; if (alo > scale) scale = alo; if (ahi > scale) scale = ahi;
	if (scale > (Q)std::numeric_limits<T>::max() / 4) return false;
	// an exact multiple must come back unchanged ("x itself", and the documented formula subtracts fmod = 0): no tolerance there
	const long double tol = exact ? 0.0L : 8.0L * fp::ulp_at<T>((long double)scale);
	// conditioning: when the spacing of the multiples is itself within a few tolerances (|x|/m above ~2^17 in float) neither neighbour can be told
	// from the other; such cases are counted, not judged
	if (!exact && (long double)m < 8.0L * tol) { if (!vec) c.cls("multiple-below-resolution(not judged)"); return true; }
	const char* ty = tn<T>();
	const char* sc = fsign(x);
	const char* k = fcat(sc, exact ? "exact" : "inexact");
	auto err = [&](T got, Q want) -> long double { if (fp::is_nan(got)) return INFINITY; Q d = (Q)got - want; if (d < 0) d = -d; return (long double)d; };
	{
		long double e = err(r.ceil, hi);
		if (!(e <= tol)) C18_FAIL(c, "ceilMultiple", ty, k, vec, "ceilMultiple(%.17g, %.17g)=%.17g, expected %.17g (err %.3Lg, tol %.3Lg)", (double)x, (double)m, (double)r.ceil, (double)hi, e, tol);
		else if (!exact) c.metric("ceilMultiple(float) err/tol", (double)(e / tol));
	}
	{
		long double e = err(r.floor, lo);
		if (!(e <= tol)) C18_FAIL(c, "floorMultiple", ty, k, vec, "floorMultiple(%.17g, %.17g)=%.17g, expected %.17g (err %.3Lg, tol %.3Lg)", (double)x, (double)m, (double)r.floor, (double)lo, e, tol);
		else if (!exact) c.metric("floorMultiple(float) err/tol", (double)(e / tol));
	}
	{
		// distances to the two neighbours, exactly: |x| < m is decided on the values themselves
		int side;  // -1 below, +1 above, 0 tie / exact
		if (exact) side = 0;
		else if (step == 0) { Q a = (Q)x - lo, b = hi - (Q)x; side = a < b ? -1 : (b < a ? 1 : 0); }
		else { c18::i128 dhi = step - dlo; side = dlo < dhi ? -1 : (dhi < dlo ? 1 : 0); }
		const char* rk = exact ? "exact" : side < 0 ? "nearest-below" : side > 0 ? "nearest-above" : "tie";
		long double e = side < 0 ? err(r.round, lo) : side > 0 ? err(r.round, hi) : std::min(err(r.round, lo), err(r.round, hi));
		if (!(e <= tol)) C18_FAIL(c, "roundMultiple", ty, fcat(sc, rk), vec, "roundMultiple(%.17g, %.17g)=%.17g, expected %.17g (neighbours %.17g and %.17g; err %.3Lg, tol %.3Lg)", (double)x, (double)m, (double)r.round, (double)(side > 0 ? hi : lo), (double)lo, (double)hi, e, tol);
		else if (!exact) c.metric("roundMultiple(float) err/tol", (double)(e / tol));
		if (!vec) { c.cls(exact ? "round:exact" : side < 0 ? "round:nearest-below" : side > 0 ? "round:nearest-above" : "round:tie"); }
	}
	return true;
}
template <class T> static T gen_fm(pbt::Ctx& c) {
	switch (c.draw(5)) {
	case 0: return (T)(1 + c.draw(16));
	case 1: return (T)std::ldexp(1.0, (int)c.range(-8, 8));
	case 2: return (T)std::ldexp((double)(1 + c.draw(15)), (int)c.range(-6, 6));
	case 3: { static const double Dm[] = {0.1, 0.3, 0.7, 1.5, 2.5, 10.0, 100.0, 1e-3, 0.25, 3.14159265358979}; return (T)Dm[c.draw(10)]; }
	default: { T v = fp::gen_moderate<T>(c); if (v < 0) v = -v; if (v == 0) v = 1; return v; }
	}
}
template <class T> static T gen_fx(pbt::Ctx& c, T m) {
	switch (c.draw(8)) {
	case 0: return (T)((T)c.range(-40, 40) * m);                                       // exact multiples (exact when m is dyadic / small)
	case 1: return (T)(((T)c.range(-40, 40) + (T)0.5) * m);                            // midpoints
	case 2: { T v = (T)((T)c.range(-40, 40) * m); return std::nextafter(v, c.coin() ? (T)INFINITY : (T)-INFINITY); }  // just off a multiple
	case 3: return (T)(m * (T)c.uniform(-1.0, 1.0));                                  // |x| < m
	case 4: return c.coin() ? (T)0 : (T)-0.0;
	case 5: return (T)((T)(int64_t)c.range(-(1 << 30), 1 << 30) * m);                  // large quotients
	case 6: return (T)(m * (T)c.uniform(-100.0, 100.0));
	default: return fp::gen_moderate<T>(c);
	}
}
template <class T> static void prop_fmult(pbt::Ctx& c) {
	c18::begin_random_case();
	T m = gen_fm<T>(c), x = gen_fx<T>(c, m);
	if (c.verbose) c.logf("%s x=%.17g m=%.17g", tn<T>(), (double)x, (double)m);
	FR<T> r; r.ceil = glm::ceilMultiple(x, m); r.floor = glm::floorMultiple(x, m); r.round = glm::roundMultiple(x, m);
	bool exact = false;
	if (!judge_fmult(c, x, m, r, 0, &exact)) { c.skip(); return; }
	if (!exact) c.nontrivial();
	c.cls(exact ? "exact-multiple" : "inexact");
	c.cls(fsign(x));
	if (std::fabs((double)x) < (double)m) c.cls("|x|<m");
	// vec3 with different lanes
	glm::vec<3, T> vx(x, -x, (T)(x + m)), vm(m, m, (T)(m * 2));
	glm::vec<3, T> ce = glm::ceilMultiple(vx, vm), fl = glm::floorMultiple(vx, vm), ro = glm::roundMultiple(vx, vm);
	for (int i = 0; i < 3; ++i) { FR<T> q; q.ceil = ce[i]; q.floor = fl[i]; q.round = ro[i]; judge_fmult(c, vx[i], vm[i], q, 1, nullptr); }
	glm::vec<2, T> wx((T)(x + m), x), wm(m, m);
	glm::vec<2, T> c2 = glm::ceilMultiple(wx, wm), f2 = glm::floorMultiple(wx, wm), r2 = glm::roundMultiple(wx, wm);
	for (int i = 0; i < 2; ++i) { FR<T> q; q.ceil = c2[i]; q.floor = f2[i]; q.round = r2[i]; judge_fmult(c, wx[i], wm[i], q, 1, nullptr); }
}
#define RULE_FM "ceil/floor/roundMultiple(x, Multiple>0): Multiple in {1..16, 2^k, k*2^e, decimals, moderate}; x in {q*m, (q+1/2)*m, one ulp off a multiple, |x|<m, +-0, large quotients, random}; scalar, vec2, vec3; exact integer oracle, exact multiples must return x, else 8-ulp tolerance of max(|x|,m,|result|); non-trivial = x is not a multiple of m"
static void fm_float(pbt::Ctx& c) { prop_fmult<float>(c); }
PBT_RANDOM("multiple/float", fm_float, 1500000, 30000000, RULE_FM);
static void fm_double(pbt::Ctx& c) { prop_fmult<double>(c); }
PBT_RANDOM("multiple/double", fm_double, 1500000, 30000000, RULE_FM);
