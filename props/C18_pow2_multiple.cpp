// C18 (part 1 of 3, holds main) — power-of-two family, integer multiples, findNSB, integer log2.
//   ext/scalar_integer + ext/vector_integer : isPowerOfTwo next/prevPowerOfTwo isMultiple next/prevMultiple findNSB
//   gtc/round                                 : ceil/floor/roundPowerOfTwo ceil/floor/roundMultiple (integer types here, float in part 3)
//   gtx/bit                                   : highestBitValue lowestBitValue powerOfTwoAbove/Below/Nearest
//   gtc/integer                               : log2 on integer scalars / vectors
// Exhaustive over every value of int8/uint8/int16/uint16 (crossed with every multiple m >= 1 and every bit rank n),
// structured + random for 32/64-bit. Oracles are the loops of engine/ref/refc18.hpp evaluated in a wider type.
//
// Domain decisions (from the doc comments):
//  * power-of-two family: judged for x >= 1. x == 0 is a convention and negative x has no documented meaning
//    (GLM works on |x| and multiplies the sign back in) -> both are counted in classes, never judged.
//    A result that is not representable in the element type (ceil above the largest power of two) is not judged.
//  * multiples: "Multiple must be a null or positive value" and 0 divides by zero -> m >= 1. Results outside the
//    element type are not judged. roundMultiple ties accept either neighbour.
//  * findNSB: significantBitCount in [1, width]; -1 when the value has fewer set bits.
#include "fp.hpp"
#include "ref/refc18.hpp"
#include <glm/glm.hpp>
#include <glm/ext/scalar_integer.hpp>
#include <glm/ext/vector_integer.hpp>
#include <glm/ext/scalar_int_sized.hpp>
#include <glm/ext/scalar_uint_sized.hpp>
#include <glm/gtc/round.hpp>
#include <glm/gtc/integer.hpp>
#include <glm/gtx/bit.hpp>

using c18::D;
using c18::ull;

template <class T> struct Lim {
	typedef typename c18::WideOf<T>::type W;
	static W max() { return (W)std::numeric_limits<T>::max(); }
	static W min() { return (W)std::numeric_limits<T>::min(); }
	static bool fits(W v) { return v >= min() && v <= max(); }
};
template <class T> struct Dom { static const bool small = sizeof(T) <= 2; static const uint64_t size = small ? (1ULL << (sizeof(T) * 8)) : 0; };
template <class T> static const char* tn() { return c18::TN<T>::name(); }

// =====================================================================================================
// power-of-two family
// =====================================================================================================
template <class T> struct P2 { bool isp; T next, prev, ceil, floor, round, above, below, nearest, hi, lo, lg; };

template <class T> static void judge_p2(pbt::Ctx& c, T e, const P2<T>& r, int vec) {
	typedef typename c18::WideOf<T>::type W;
	const char* ty = tn<T>();
	const W x = (W)e;
	// bit-pattern functions: defined for every pattern with a set bit
	if (e != 0) {
		const char* k = (std::is_signed<T>::value && e < 0) ? "negative" : "positive";
		T wh = c18::highestBit(e), wl = c18::lowestBit(e);
		if (r.hi != wh) C18_FAIL(c, "highestBitValue", ty, k, vec, "highestBitValue(%s)=%s (0x%llx), expected %s", D(e), D(r.hi), ull(r.hi), D(wh));
		if (r.lo != wl) C18_FAIL(c, "lowestBitValue", ty, k, vec, "lowestBitValue(%s)=%s (0x%llx), expected %s", D(e), D(r.lo), ull(r.lo), D(wl));
	}
	if (x < 1) return;
	const bool ip = c18::isPow2(x);
	const W f = c18::floorPow2(x), cl = c18::ceilPow2(x);
	const bool cl_ok = Lim<T>::fits(cl);
	const char* kc = ip ? "already-pow2" : "rounds";
	if (r.isp != ip) C18_FAIL(c, "isPowerOfTwo", ty, ip ? "pow2" : "not-pow2", vec, "isPowerOfTwo(%s)=%d, expected %d", D(e), (int)r.isp, (int)ip);
	if (cl_ok) {
		if ((W)r.ceil != cl) C18_FAIL(c, "ceilPowerOfTwo", ty, kc, vec, "ceilPowerOfTwo(%s)=%s, expected %s", D(e), D(r.ceil), D(cl));
		if ((W)r.next != cl) C18_FAIL(c, "nextPowerOfTwo", ty, kc, vec, "nextPowerOfTwo(%s)=%s, expected %s", D(e), D(r.next), D(cl));
		if ((W)r.above != cl) C18_FAIL(c, "powerOfTwoAbove", ty, kc, vec, "powerOfTwoAbove(%s)=%s, expected %s", D(e), D(r.above), D(cl));
	} else if (!vec) c.cls("ceil-not-representable(not judged)");
	if ((W)r.floor != f) C18_FAIL(c, "floorPowerOfTwo", ty, kc, vec, "floorPowerOfTwo(%s)=%s, expected %s", D(e), D(r.floor), D(f));
	if ((W)r.prev != f) C18_FAIL(c, "prevPowerOfTwo", ty, kc, vec, "prevPowerOfTwo(%s)=%s, expected %s", D(e), D(r.prev), D(f));
	if ((W)r.below != f) C18_FAIL(c, "powerOfTwoBelow", ty, kc, vec, "powerOfTwoBelow(%s)=%s, expected %s", D(e), D(r.below), D(f));
	// nearest: ties (x = 3*2^k) accept either neighbour; a nearest neighbour outside the type is not judged
	{
		const W dlo = x - f, dhi = cl - x;
		W a, b; const char* k;
		bool judged = true;
		if (ip) { a = b = x; k = "already-pow2"; }
		else if (dlo < dhi) { a = b = f; k = cl_ok ? "nearest-below" : "nearest-below/next-overflows"; }
		else if (dhi < dlo) { a = b = cl; k = "nearest-above"; judged = cl_ok; }
		else { a = f; b = cl_ok ? cl : f; k = cl_ok ? "tie" : "tie/next-overflows"; if (!vec) c.cls("tie(3*2^k)"); }
		if (judged) {
			if ((W)r.round != a && (W)r.round != b) C18_FAIL(c, "roundPowerOfTwo", ty, k, vec, "roundPowerOfTwo(%s)=%s, expected %s (neighbours %s and %s)", D(e), D(r.round), D(a), D(f), D(cl));
			if ((W)r.nearest != a && (W)r.nearest != b) C18_FAIL(c, "powerOfTwoNearest", ty, k, vec, "powerOfTwoNearest(%s)=%s, expected %s (neighbours %s and %s)", D(e), D(r.nearest), D(a), D(f), D(cl));
		} else if (!vec) c.cls("nearest-not-representable(not judged)");
		if (!vec && !ip && !cl_ok && dlo <= dhi) c.cls("nearest-below-while-next-overflows");
	}
	{
		const int lg = c18::floorLog2(x);
		if ((W)r.lg != (W)lg) C18_FAIL(c, "log2", ty, kc, vec, "log2(%s)=%s, expected floor(log2 x)=%d", D(e), D(r.lg), lg);
	}
}

template <class T> static P2<T> p2_scalar(T v) {
	P2<T> r;
	r.isp = glm::isPowerOfTwo(v);
	r.next = glm::nextPowerOfTwo(v); r.prev = glm::prevPowerOfTwo(v);
	r.ceil = glm::ceilPowerOfTwo(v); r.floor = glm::floorPowerOfTwo(v); r.round = glm::roundPowerOfTwo(v);
	r.above = glm::powerOfTwoAbove(v); r.below = glm::powerOfTwoBelow(v); r.nearest = glm::powerOfTwoNearest(v);
	r.hi = glm::highestBitValue(v); r.lo = glm::lowestBitValue(v);
	r.lg = glm::log2(v);
	return r;
}
// all lanes >= 1 (inside the judged domain) and pairwise different in general, so a lane mix-up is visible
template <class T> static T lane_fix(T e) { if (e > 0) return e; if (e == 0 || e == std::numeric_limits<T>::min()) return 1; return (T)(-e); }
template <class T, int L> static void p2_vec(pbt::Ctx& c, T v) {
	typedef glm::vec<L, T> V;
	T lanes[4] = {v, lane_fix((T)~v), lane_fix((T)(v + 1)), lane_fix((T)(v ^ (T)0x5a))};
#ifdef PBT_UBSAN_HOOK
	// sanitizer builds: every lane must stay inside the domain (representable ceiling), like the scalar argument
	for (int i = 0; i < 4; ++i) if (lanes[i] > 0 && !Lim<T>::fits(c18::ceilPow2((typename c18::WideOf<T>::type)lanes[i]))) lanes[i] = v;
#endif
	V x;
	for (int i = 0; i < L; ++i) x[i] = lanes[(i + (int)(ull(v) % L)) % 4];
	glm::vec<L, bool> isp = glm::isPowerOfTwo(x);
	V nx = glm::nextPowerOfTwo(x), pv = glm::prevPowerOfTwo(x), ce = glm::ceilPowerOfTwo(x), fl = glm::floorPowerOfTwo(x), ro = glm::roundPowerOfTwo(x);
	V ab = glm::powerOfTwoAbove(x), be = glm::powerOfTwoBelow(x), ne = glm::powerOfTwoNearest(x), hi = glm::highestBitValue(x), lo = glm::lowestBitValue(x), lg = glm::log2(x);
	for (int i = 0; i < L; ++i) {
		P2<T> r; r.isp = isp[i]; r.next = nx[i]; r.prev = pv[i]; r.ceil = ce[i]; r.floor = fl[i]; r.round = ro[i]; r.above = ab[i]; r.below = be[i]; r.nearest = ne[i]; r.hi = hi[i]; r.lo = lo[i]; r.lg = lg[i];
		judge_p2(c, x[i], r, 1);
	}
}

template <class T> static T gen_p2_value(pbt::Ctx& c) {
	typedef typename std::make_unsigned<T>::type U;
	const int W = sizeof(T) * 8;
	switch (c.draw(6)) {
	case 0: return fp::gen_int<T>(c);
	case 1: return (T)(U)((U)((U)1 << c.draw(W)) + (U)c.range(-2, 2));                // power of two +- 2
	case 2: return (T)(U)((U)((U)3 << c.draw(W - 1)) + (U)c.range(-1, 1));            // tie 3*2^k +- 1
	case 3: return (T)(std::numeric_limits<T>::max() - (T)c.draw(4));                 // top of the range
	case 4: { int k = 1 + (int)c.draw(W - 1); U lo = (U)((U)1 << (k - 1)); return (T)(U)(lo + (U)(c.draw(0) % (uint64_t)lo)); }  // uniform inside a binade
	default: return (T)(U)c.draw(0);
	}
}

template <class T> static void prop_p2(pbt::Ctx& c) {
	T v;
	if (Dom<T>::small) { uint64_t i = c.draw(Dom<T>::size); c18::begin_sweep_case(i); v = (T)(typename std::make_unsigned<T>::type)i; }
	else { c18::begin_random_case(); v = gen_p2_value<T>(c); }
	if (c.verbose) c.logf("%s x=%s (0x%llx)", tn<T>(), D(v), ull(v));
	typedef typename c18::WideOf<T>::type W;
#ifdef PBT_UBSAN_HOOK
	// sanitizer builds (C20): an argument whose exact result is not representable in the element type is outside the domain
	// (signed overflow there is the caller's), so it is not evaluated at all
	if (v > 0 && !Lim<T>::fits(c18::ceilPow2((W)v))) { c.cls("san:ceil-not-representable(skipped)"); c.skip(); return; }
#endif
	if (v == 0) {
		// convention, reported not judged
		c.cls(glm::isPowerOfTwo(v) ? "zero:isPowerOfTwo=true(convention)" : "zero:isPowerOfTwo=false(convention)");
		c.cls((glm::ceilPowerOfTwo(v) == 0 && glm::floorPowerOfTwo(v) == 0 && glm::roundPowerOfTwo(v) == 0) ? "zero:ceil/floor/round=0(convention)" : "zero:other(convention)");
		return;
	}
	if (std::is_signed<T>::value && v < 0) {
		// no documented meaning; GLM's code is sign-symmetric. Only the bit-pattern functions are judged.
		// highestBitValue walks the set bits with `tmp & (~tmp + 1)`: at the sign bit that is INT_MAX + 1 in a 32/64-bit
		// signed type (undefined; observed as a non-terminating loop with g++ -O2), so it is only called where the
		// arithmetic is promoted to int (8/16-bit). lowestBitValue has the same overflow only at x = min.
		P2<T> r = P2<T>();
		const bool promoted = sizeof(T) < 4;
		r.hi = promoted ? glm::highestBitValue(v) : c18::highestBit(v);
		r.lo = (promoted || v != std::numeric_limits<T>::min()) ? glm::lowestBitValue(v) : c18::lowestBit(v);
		if (!promoted) c.cls("negative:highestBitValue-not-called(signed overflow inside GLM)");
		judge_p2(c, v, r, 0);
		if (v != std::numeric_limits<T>::min()) {
			W a = -(W)v;
			bool sym = glm::isPowerOfTwo(v) == c18::isPow2(a);
			if (Lim<T>::fits(c18::ceilPow2(a))) sym = sym && (W)glm::ceilPowerOfTwo(v) == -c18::ceilPow2(a);
			c.cls(sym ? "negative:sign-symmetric(convention,not judged)" : "negative:other(convention,not judged)");
		} else c.cls("negative:min(not judged)");
		c.nontrivial();
		return;
	}
	if (!c18::isPow2((W)v)) { c.nontrivial(); c.cls("rounds"); } else c.cls("already-pow2");
	judge_p2(c, v, p2_scalar(v), 0);
	p2_vec<T, 1>(c, v); p2_vec<T, 2>(c, v); p2_vec<T, 3>(c, v); p2_vec<T, 4>(c, v);
}

// =====================================================================================================
// multiples
// =====================================================================================================
template <class T> struct MR { bool ism; T next, prev, ceil, floor, round; };

template <class T> static const char* sign_class(T x) {
	if (x == 0) return "x=0";
	if (std::is_signed<T>::value && x == std::numeric_limits<T>::min()) return "x=min";
	return x > 0 ? "x>0" : "x<0";
}
static const char* cat2(const char* a, const char* b) {  // interned "a/b" (address-stable, a and b from small fixed sets)
	struct E { const char *a, *b; char s[40]; };
	static thread_local E tab[64]; static thread_local int n = 0;
	for (int i = 0; i < n; ++i) if (tab[i].a == a && tab[i].b == b) return tab[i].s;
	E& e = tab[n < 63 ? n++ : 63]; e.a = a; e.b = b; snprintf(e.s, sizeof e.s, "%s/%s", a, b);
	return e.s;
}

template <class T> static bool judge_mult(pbt::Ctx& c, T xe, T me, const MR<T>& r, int vec, bool have_gtc = true) {
	typedef typename c18::WideOf<T>::type W;
	const char* ty = tn<T>();
	const W x = (W)xe, m = (W)me;
	const W lo = c18::floorMul(x, m), hi = c18::ceilMul(x, m);
	const bool exact = lo == x;
	const char* sc = sign_class(xe);
	const char* k = cat2(sc, exact ? "exact" : "inexact");
	if (r.ism != exact) C18_FAIL(c, "isMultiple", ty, k, vec, "isMultiple(%s,%s)=%d, expected %d", D(xe), D(me), (int)r.ism, (int)exact);
	if (Lim<T>::fits(hi)) {
		if ((W)r.next != hi) C18_FAIL(c, "nextMultiple", ty, k, vec, "nextMultiple(%s,%s)=%s, expected %s", D(xe), D(me), D(r.next), D(hi));
		if (have_gtc && (W)r.ceil != hi) C18_FAIL(c, "ceilMultiple", ty, k, vec, "ceilMultiple(%s,%s)=%s, expected %s", D(xe), D(me), D(r.ceil), D(hi));
	} else if (!vec) c.cls("ceil-not-representable(not judged)");
	if (Lim<T>::fits(lo)) {
		if ((W)r.prev != lo) C18_FAIL(c, "prevMultiple", ty, k, vec, "prevMultiple(%s,%s)=%s, expected %s", D(xe), D(me), D(r.prev), D(lo));
		if (have_gtc && (W)r.floor != lo) C18_FAIL(c, "floorMultiple", ty, k, vec, "floorMultiple(%s,%s)=%s, expected %s", D(xe), D(me), D(r.floor), D(lo));
	} else if (!vec) c.cls("floor-not-representable(not judged)");
	if (have_gtc) {
		const W dlo = x - lo, dhi = hi - x;
		W a, b; const char* rk; bool judged = true;
		if (exact) { a = b = x; rk = "exact"; }
		else if (dlo < dhi) { a = b = lo; rk = "nearest-below"; judged = Lim<T>::fits(lo); }
		else if (dhi < dlo) { a = b = hi; rk = "nearest-above"; judged = Lim<T>::fits(hi); }
		else { a = Lim<T>::fits(lo) ? lo : hi; b = Lim<T>::fits(hi) ? hi : lo; rk = (a == b) ? "tie/one-neighbour-not-representable" : "tie"; judged = Lim<T>::fits(lo) || Lim<T>::fits(hi); }
		if (judged) {
			if ((W)r.round != a && (W)r.round != b) C18_FAIL(c, "roundMultiple", ty, cat2(sc, rk), vec, "roundMultiple(%s,%s)=%s, expected %s (neighbours %s and %s)", D(xe), D(me), D(r.round), D(a), D(lo), D(hi));
		} else if (!vec) c.cls("nearest-not-representable(not judged)");
		if (!vec) { if (exact) c.cls("round:exact"); else if (dlo < dhi) c.cls("round:nearest-below"); else if (dhi < dlo) c.cls("round:nearest-above"); else c.cls("round:tie"); }
	}
	return exact;
}

template <class T> static MR<T> mult_scalar(T x, T m) {
	MR<T> r;
	r.ism = glm::isMultiple(x, m);
	r.next = glm::nextMultiple(x, m); r.prev = glm::prevMultiple(x, m);
	r.ceil = glm::ceilMultiple(x, m); r.floor = glm::floorMultiple(x, m); r.round = glm::roundMultiple(x, m);
	return r;
}
template <class T, int L> static void mult_vec(pbt::Ctx& c, T x, T m) {
	typedef glm::vec<L, T> V;
	const T mx = std::numeric_limits<T>::max();
	T xl[4] = {x, (T)~x, (T)(x + 1), (T)(x ^ (T)0x5a)};
	T ml[4] = {m, (T)(m == mx ? 1 : m + 1), (T)(m > 1 ? m - 1 : 2), (T)(mx - m + 1)};
	V vx, vm;
	const int rot = (int)(ull(x) % L);
	for (int i = 0; i < L; ++i) { vx[i] = xl[(i + rot) % 4]; vm[i] = ml[(i + rot) % 4]; }
	// (vector, vector)
	{
		glm::vec<L, bool> ism = glm::isMultiple(vx, vm);
		V nx = glm::nextMultiple(vx, vm), pv = glm::prevMultiple(vx, vm), ce = glm::ceilMultiple(vx, vm), fl = glm::floorMultiple(vx, vm), ro = glm::roundMultiple(vx, vm);
		for (int i = 0; i < L; ++i) { MR<T> r; r.ism = ism[i]; r.next = nx[i]; r.prev = pv[i]; r.ceil = ce[i]; r.floor = fl[i]; r.round = ro[i]; judge_mult(c, vx[i], vm[i], r, 1); }
	}
	// (vector, scalar) — ext/vector_integer only
	{
		glm::vec<L, bool> ism = glm::isMultiple(vx, m);
		V nx = glm::nextMultiple(vx, m), pv = glm::prevMultiple(vx, m);
		for (int i = 0; i < L; ++i) { MR<T> r = MR<T>(); r.ism = ism[i]; r.next = nx[i]; r.prev = pv[i]; judge_mult(c, vx[i], m, r, 1, false); }
	}
}

template <class T> static void gen_mult_pair(pbt::Ctx& c, T* px, T* pm) {
	typedef typename c18::WideOf<T>::type W;
	typedef typename std::make_unsigned<T>::type U;
	const int B = sizeof(T) * 8;
	const W mx = Lim<T>::max();
	W m;
	switch (c.draw(6)) {
	case 0: m = 1 + (W)c.draw(16); break;
	case 1: m = (W)1 << c.draw(std::is_signed<T>::value ? B - 1 : B); break;
	case 2: m = ((W)1 << (1 + c.draw(std::is_signed<T>::value ? B - 2 : B - 1))) + (W)c.range(-1, 1); break;
	case 3: m = mx - (W)c.draw(4); break;
	case 4: { int k = 1 + (int)c.draw(std::is_signed<T>::value ? B - 2 : B - 1); m = (W)(c.draw(0) % ((uint64_t)1 << k)) + 1; break; }  // log-uniform magnitude
	default: m = (W)((U)c.draw(0) & (U)mx); break;
	}
	if (m < 1) m = 1;
	if (m > mx) m = mx;
	W x;
	switch (c.draw(5)) {
	case 0: x = (W)fp::gen_int<T>(c); break;
	case 1: case 2: {  // q*m + d with q*m inside the type: exact multiples, their neighbours, the midpoint
		c18::i128 qmax = (c18::i128)mx / (c18::i128)m, qmin = (c18::i128)Lim<T>::min() / (c18::i128)m;
		c18::u128 span = (c18::u128)(qmax - qmin) + 1;
		uint64_t rr = c.draw(0);
		c18::i128 q = qmin + (c18::i128)(span > (c18::u128)0xffffffffffffffffULL ? (c18::u128)rr : (c18::u128)(rr % (uint64_t)span));
		if (c.coin()) q = (c18::i128)c.range(-3, 3);
		if (q > qmax) q = qmax;
		if (q < qmin) q = qmin;
		W d; switch (c.draw(5)) { case 0: d = 0; break; case 1: d = 1; break; case 2: d = -1; break; case 3: d = m / 2; break; default: d = m / 2 + 1; }
		x = (W)q * m + d; break;
	}
	case 3: x = c.coin() ? Lim<T>::min() + (W)c.draw(3) : mx - (W)c.draw(3); break;
	default: x = (W)(T)(U)c.draw(0); break;
	}
	if (x > mx) x = mx;
	if (x < Lim<T>::min()) x = Lim<T>::min();
	*px = (T)x; *pm = (T)m;
}

template <class T> static void prop_mult(pbt::Ctx& c) {
	T x, m; uint64_t idx = 0;
	if (Dom<T>::small) {
		const uint64_t nm = (uint64_t)std::numeric_limits<T>::max();
		idx = c.draw(Dom<T>::size * nm); c18::begin_sweep_case(idx);
		x = (T)(typename std::make_unsigned<T>::type)(idx % Dom<T>::size); m = (T)(idx / Dom<T>::size + 1);
	} else { c18::begin_random_case(); gen_mult_pair<T>(c, &x, &m); idx = ull(x) * 0x9e3779b97f4a7c15ULL; }
	if (c.verbose) c.logf("%s x=%s m=%s", tn<T>(), D(x), D(m));
#ifdef PBT_UBSAN_HOOK
	{	// sanitizer builds (C20): skip arguments whose floor / ceil multiple is not representable (see prop_p2); the vector lanes use
		// x-1, x+1 style neighbours, so one more multiple of margin is required on both sides
		typedef typename c18::WideOf<T>::type W2;
		W2 lo = c18::floorMul((W2)x, (W2)m) - 2 * (W2)m, hi = c18::ceilMul((W2)x, (W2)m) + 2 * (W2)m;
		if (!Lim<T>::fits(lo) || !Lim<T>::fits(hi)) { c.cls("san:multiple-not-representable(skipped)"); c.skip(); return; }
	}
#endif
	bool exact = judge_mult(c, x, m, mult_scalar(x, m), 0);
	if (!exact) c.nontrivial();
	c.cls(sign_class(x));
	// vector overloads: always for the 8-bit sweeps and the random targets, every 8th index of the 16-bit sweeps
	if (sizeof(T) != 2 || (pbt::mix64(idx) & 7) == 0) {
		switch (pbt::mix64(idx ^ 0x55) & 3) {
		case 0: mult_vec<T, 1>(c, x, m); break;
		case 1: mult_vec<T, 2>(c, x, m); break;
		case 2: mult_vec<T, 3>(c, x, m); break;
		default: mult_vec<T, 4>(c, x, m); break;
		}
		c.cls("vector-overloads-checked");
	}
}

// =====================================================================================================
// findNSB
// =====================================================================================================
template <class T> static void judge_nsb(pbt::Ctx& c, T x, int n, int got, int vec) {
	int want = refint::findNSB(x, n);
	if (got != want) {
		const char* k = cat2((std::is_signed<T>::value && x < 0) ? "negative" : "nonnegative", want < 0 ? "absent" : "present");
		C18_FAIL(c, "findNSB", tn<T>(), k, vec, "findNSB(0x%llx, %d)=%d, expected %d", ull(x), n, got, want);
	}
}
template <class T, int L> static void nsb_vec(pbt::Ctx& c, T x, int n) {
	const int B = sizeof(T) * 8;
	T xl[4] = {x, (T)~x, (T)(x + 1), (T)(x ^ (T)0x5a)};
	int nl[4] = {n, 1 + (n % B), 1 + ((n + 2) % B), 1 + ((n * 3) % B)};
	glm::vec<L, T> vx; glm::vec<L, int> vn;
	const int rot = (int)(ull(x) % L);
	for (int i = 0; i < L; ++i) { vx[i] = xl[(i + rot) % 4]; vn[i] = nl[(i + rot) % 4]; }
	glm::vec<L, int> r = glm::findNSB(vx, vn);
	for (int i = 0; i < L; ++i) judge_nsb(c, vx[i], vn[i], r[i], 1);
}
template <class T> static void prop_nsb(pbt::Ctx& c) {
	const int B = sizeof(T) * 8;
	T x; int n;
	if (Dom<T>::small) { uint64_t i = c.draw(Dom<T>::size * B); c18::begin_sweep_case(i); x = (T)(typename std::make_unsigned<T>::type)(i % Dom<T>::size); n = 1 + (int)(i / Dom<T>::size); }
	else {
		c18::begin_random_case();
		x = fp::gen_int<T>(c);
		int bc = refint::bitCount(x);
		switch (c.draw(4)) { case 0: n = 1 + (int)c.draw(B); break; case 1: n = bc ? bc : 1; break; case 2: n = bc + 1 > B ? B : bc + 1; break; default: n = 1 + (int)c.draw(bc ? bc : 1); }
	}
	if (c.verbose) c.logf("%s findNSB(0x%llx, %d)", tn<T>(), ull(x), n);
	const int bc = refint::bitCount(x);
	if (bc >= 2 && n >= 2 && n <= bc) c.nontrivial();  // the answer is neither -1 nor findLSB
	if (n > bc) c.cls("absent(-1)"); else if (n == 1) c.cls("first-bit"); else if (n == bc) c.cls("last-bit"); else c.cls("inner-bit");
	if (std::is_signed<T>::value && x < 0) c.cls("negative");
	judge_nsb(c, x, n, glm::findNSB(x, n), 0);
	nsb_vec<T, 1>(c, x, n); nsb_vec<T, 2>(c, x, n); nsb_vec<T, 3>(c, x, n); nsb_vec<T, 4>(c, x, n);
}

// =====================================================================================================
#define RULE_P2 "power-of-two family + highest/lowestBitValue + integer log2, scalar and vec1-4 lanes; judged for x>=1 (0 and negatives are convention classes), result must be representable; non-trivial = x>=1 not a power of two (the function rounds) or negative (bit-pattern functions)"
#define RULE_MU "isMultiple/next/prev/ceil/floor/roundMultiple, scalar, (vec,vec) and (vec,scalar) overloads, m>=1; results outside the type not judged, ties accept either neighbour; non-trivial = x is not a multiple of m (the function rounds)"
#define RULE_NS "findNSB(x,n) with 1<=n<=width, scalar and vec1-4; non-trivial = 2<=n<=bitCount(x) (answer is neither -1 nor findLSB)"
#define SMALL(T, N, QS) \
	static void p2_##N(pbt::Ctx& c) { prop_p2<T>(c); } \
	PBT_SWEEP("pow2/" #N, p2_##N, Dom<T>::size, 1, 1, "every value: " RULE_P2); \
	static void mu_##N(pbt::Ctx& c) { prop_mult<T>(c); } \
	PBT_SWEEP("multiple/" #N, mu_##N, Dom<T>::size*(uint64_t)std::numeric_limits<T>::max(), QS, 1, "every value x every multiple 1..max: " RULE_MU); \
	static void ns_##N(pbt::Ctx& c) { prop_nsb<T>(c); } \
	PBT_SWEEP("findNSB/" #N, ns_##N, Dom<T>::size * sizeof(T) * 8, 1, 1, "every value x every n: " RULE_NS);
#define LARGE(T, N) \
	static void p2_##N(pbt::Ctx& c) { prop_p2<T>(c); } \
	PBT_RANDOM("pow2/" #N, p2_##N, 600000, 20000000, "powers of two +-2, ties 3*2^k +-1, top of range, uniform inside a binade, structured patterns, random: " RULE_P2); \
	static void mu_##N(pbt::Ctx& c) { prop_mult<T>(c); } \
	PBT_RANDOM("multiple/" #N, mu_##N, 1500000, 30000000, "m: 1..16, powers of two +-1, top of range, log-uniform, random; x: q*m+{0,+-1,m/2,m/2+1}, extremes, structured, random: " RULE_MU); \
	static void ns_##N(pbt::Ctx& c) { prop_nsb<T>(c); } \
	PBT_RANDOM("findNSB/" #N, ns_##N, 600000, 20000000, "structured/random x, n in {random, bitCount, bitCount+1, 1..bitCount}: " RULE_NS);

SMALL(glm::int8, int8, 1)
SMALL(glm::uint8, uint8, 1)
SMALL(glm::int16, int16, 64)
SMALL(glm::uint16, uint16, 64)
LARGE(glm::int32, int32)
LARGE(glm::uint32, uint32)
LARGE(glm::int64, int64)
LARGE(glm::uint64, uint64)

int main(int argc, char** argv) { return pbt::pbt_main(argc, argv, "C18"); }
