// C19 (part 2) — gtx/color_space (rgbColor, hsvColor, saturation, luminosity) and gtx/color_space_YCoCg
// (rgb2YCoCg, YCoCg2rgb, rgb2YCoCgR, YCoCgR2rgb on float and on every integer element type).
// Oracles (engine/ref/refcolor.hpp, long double / int64, no GLM code): textbook chroma formulation of HSV, the
// Malvar-Sullivan definitions of YCoCg and of the YCoCg-R lifting steps, out = L + s (c - L) for saturation,
// dot(c, (0.33,0.59,0.11)) for luminosity (the weights of its doc comment).
#include "fp.hpp"
#include "ref/refcolor.hpp"
#ifndef GLM_ENABLE_EXPERIMENTAL
#define GLM_ENABLE_EXPERIMENTAL
#endif
#include <glm/glm.hpp>
#include <glm/ext/scalar_int_sized.hpp>
#include <glm/ext/scalar_uint_sized.hpp>
#include <glm/gtx/color_space.hpp>
#include <glm/gtx/color_space_YCoCg.hpp>

using namespace fp;
typedef long double LD;
namespace rc = refcolor;

template <class T> struct TN;
template <> struct TN<float> { static const char* name() { return "float"; } };
template <> struct TN<double> { static const char* name() { return "double"; } };
template <class T> static T next_up(T x) { return from_ordered<T>(ordered(x) + 1); }
template <class T> static std::string K(const char* a, const char* b) { return std::string(a) + "/" + TN<T>::name() + "/" + b; }

// ---- generators -------------------------------------------------------------------------------------------------
template <class T> static T gen_chan(pbt::Ctx& c) {  // one colour channel in [0,1]
	switch (c.draw(6)) {
	case 0: { static const double S[] = {0.0, 1.0, 0.5, 0.25, 0.75, 0.2, 0.8, 1e-3}; return (T)S[c.draw(8)]; }
	case 1: return (T)((double)c.draw(256) / 255.0);
	case 2: return (T)c.loguniform(1e-9, 1.0);
	default: return (T)c.unit();
	}
}
template <class T> static void gen_rgb(pbt::Ctx& c, T o[3]) {
	uint64_t k = c.draw(8);
	o[0] = gen_chan<T>(c); o[1] = gen_chan<T>(c); o[2] = gen_chan<T>(c);
	int a = (int)c.draw(3), b = (a + 1 + (int)c.draw(2)) % 3;
	typedef typename bits_of<T>::S S;
	switch (k) {
	case 0: o[1] = o[2] = o[0]; break;                                                       // grey
	case 1: o[b] = o[a]; break;                                                              // two equal channels (sector boundary or tie of the maximum)
	case 2: { T v = from_ordered<T>(ordered(o[a]) + (S)c.range(-3, 3)); o[b] = v < 0 ? T(0) : (v > 1 ? T(1) : v); break; }  // two channels a few ulp apart
	case 3: { static const int P[6][3] = {{1, 0, 0}, {1, 1, 0}, {0, 1, 0}, {0, 1, 1}, {0, 0, 1}, {1, 0, 1}}; int i = (int)c.draw(6); T v = gen_chan<T>(c), s = gen_chan<T>(c);
	          for (int j = 0; j < 3; ++j) o[j] = P[i][j] ? v : (T)(v * (1 - s)); break; }     // primaries / secondaries: hue exactly on a sector boundary
	default: break;
	}
}
template <class T> static T gen_hue(pbt::Ctx& c) {
	typedef typename bits_of<T>::S S;
	switch (c.draw(5)) {
	case 0: return (T)(60.0 * (double)c.draw(6));                                              // sector boundaries
	case 1: { T b = (T)(60.0 * (double)c.range(1, 6)); return from_ordered<T>(ordered(b) + (S)c.range(-4, -1)); }  // just below a boundary, incl. just below 360
	case 2: { T b = (T)(60.0 * (double)c.draw(6)); return from_ordered<T>(ordered(b) + (S)c.range(0, 4)); }       // on / just above a boundary
	case 3: return (T)(double)c.draw(360);
	default: { T h = (T)c.uniform(0.0, 360.0); return h < T(360) ? h : T(0); }
	}
}

// ---- HSV ------------------------------------------------------------------------------------------------------
template <class T> static void prop_hsv2rgb(pbt::Ctx& c) {
	const LD e = eps<T>();
	T h = gen_hue<T>(c), s = gen_chan<T>(c), v = gen_chan<T>(c);
	c.logf("%s hsv=(%.17g, %.17g, %.17g)", TN<T>::name(), (double)h, (double)s, (double)v);
	glm::vec<3, T> rgb = glm::rgbColor(glm::vec<3, T>(h, s, v));
	LD want[3];
	rc::hsv2rgb(h, s, v, want);
	int sector = (int)floorl((LD)h / 60.0L);
	static const char* SN[6] = {"sector0", "sector1", "sector2", "sector3", "sector4", "sector5"};
	static const char* KN[6] = {"value/sector0", "value/sector1", "value/sector2", "value/sector3", "value/sector4", "value/sector5"};
	c.cls(SN[sector % 6]);
	if ((LD)h == 60.0L * sector) c.cls("hue-on-boundary");
	if (s == 0) c.cls("grey"); if (v == 0) c.cls("black");
	// h/60 carries 6 eps (abs), so p,q carry v*s*6 eps; plus the roundings of the three products
	LD tol = 8 * e * (LD)v * (6 * (LD)s + 2) + 8 * std::numeric_limits<T>::denorm_min();
	LD worst = 0;
	for (int i = 0; i < 3; ++i) {
		LD err = fabsl((LD)rgb[i] - want[i]); if (err > worst || !(err == err)) worst = (err == err) ? err : INFINITY;
		if (!(rgb[i] >= 0 && (LD)rgb[i] <= 1 + 4 * e)) c.failk(K<T>("rgbColor", "range"), "channel %d = %.17g outside [0,1]", i, (double)rgb[i]);
	}
	c.metric("rgbColor err/tol", (double)(worst / tol));
	if (!(worst <= tol)) c.failk(K<T>("rgbColor", KN[sector % 6]), "rgbColor = (%.17g, %.17g, %.17g), reference (%.17Lg, %.17Lg, %.17Lg), err %Lg > tol %Lg", (double)rgb.x, (double)rgb.y, (double)rgb.z, want[0], want[1], want[2], worst, tol);
	// way back: hsv -> rgb -> hsv
	glm::vec<3, T> back = glm::hsvColor(rgb);
	if (!(back.z == v)) c.failk(K<T>("hsvColor(rgbColor)", "value"), "v=%.17g came back as %.17g", (double)v, (double)back.z);
	if (v > 2 * std::numeric_limits<T>::epsilon()) {
		LD es = fabsl((LD)back.y - (LD)s), ts = 8 * e * 2;
		c.metric("hsvColor(rgbColor) saturation err/tol", (double)(es / ts));
		if (!(es <= ts)) c.failk(K<T>("hsvColor(rgbColor)", "saturation"), "s=%.17g came back as %.17g (v=%.9g)", (double)s, (double)back.y, (double)v);
		if (s > 0) {
			LD th = 8 * (120 * e * (6 * (LD)s + 2) / (LD)s + 540 * e + 60 * e / ((LD)v * (LD)s));
			if (th < 180) {
				LD eh = rc::hue_dist(back.x, h);
				if (!(eh == eh)) eh = INFINITY;
				c.metric("hsvColor(rgbColor) hue err/tol", (double)(eh / th));
				if (!(eh <= th)) c.failk(K<T>("hsvColor(rgbColor)", (std::string("hue/") + SN[sector % 6]).c_str()), "h=%.17g came back as %.17g (s=%.9g v=%.9g), err %Lg > tol %Lg", (double)h, (double)back.x, (double)s, (double)v, eh, th);
				if (th <= 3.6L) c.nontrivial(); else c.cls("hue-ill-conditioned");
			} else c.cls("hue-ill-conditioned");
		}
	}
}
static void hsv2rgb_f(pbt::Ctx& c) { prop_hsv2rgb<float>(c); }
static void hsv2rgb_d(pbt::Ctx& c) { prop_hsv2rgb<double>(c); }
#define HSV2RGB_RULE "hue: the six sector boundaries, 1-4 ulp below/above each (incl. just below 360), whole degrees, uniform [0,360); s, v in [0,1] (0, 1, k/255, log-uniform, uniform); rgbColor against the chroma formulation, then hsvColor back; non-trivial = s>0, v>0 and hue well-conditioned (bound <= 3.6 deg)"
PBT_RANDOM("hsv_to_rgb/float", hsv2rgb_f, 3000000, 100000000, HSV2RGB_RULE);
PBT_RANDOM("hsv_to_rgb/double", hsv2rgb_d, 3000000, 100000000, HSV2RGB_RULE);

template <class T> static void prop_rgb2hsv(pbt::Ctx& c) {
	const LD e = eps<T>();
	const T te = std::numeric_limits<T>::epsilon();
	T x[3]; gen_rgb<T>(c, x);
	c.logf("%s rgb=(%.17g, %.17g, %.17g)", TN<T>::name(), (double)x[0], (double)x[1], (double)x[2]);
	glm::vec<3, T> hsv = glm::hsvColor(glm::vec<3, T>(x[0], x[1], x[2]));
	LD want[3];
	bool hue_defined = rc::rgb2hsv(x[0], x[1], x[2], want);
	T mx = std::max(x[0], std::max(x[1], x[2])), mn = std::min(x[0], std::min(x[1], x[2]));
	LD delta = (LD)mx - (LD)mn;
	// GLM compares channels with an absolute epsilon: a channel within epsilon of the maximum may be taken for it
	bool abscmp = mx <= te;
	for (int i = 0; i < 3; ++i) if (x[i] != mx && mx - x[i] <= te) abscmp = true;
	if (!hue_defined) c.cls("grey"); else { int sec = (int)(want[0] / 60.0L); static const char* SN[6] = {"sector0", "sector1", "sector2", "sector3", "sector4", "sector5"}; c.cls(SN[sec % 6]); if (want[0] == 60.0L * sec) c.cls("hue-on-boundary"); }
	if (mx == 0) c.cls("black");
	if (abscmp) c.cls("channel-within-epsilon-of-max");
	if (!(hsv.z == mx)) c.failk(K<T>("hsvColor", "value"), "v = %.17g, max channel %.17g", (double)hsv.z, (double)mx);
	if (mx > te) {
		LD es = fabsl((LD)hsv.y - want[1]), ts = 8 * e * 1.5L * (want[1] + e);
		c.metric("hsvColor saturation err/tol", (double)(es / ts));
		if (!(es <= ts)) c.failk(K<T>("hsvColor", "saturation"), "s = %.17g, reference %.17Lg", (double)hsv.y, want[1]);
		if (!(hsv.y >= 0 && hsv.y <= 1)) c.failk(K<T>("hsvColor", "saturation-range"), "s = %.17g outside [0,1]", (double)hsv.y);
	}
	if (hue_defined) {
		// hue in [0,360) for every non-grey colour
		if (hsv.x == T(360)) { c.cls("hue==360"); c.failk(K<T>("hsvColor", "hue-range/h==360"), "hue = 360 for the non-grey colour (%.17g, %.17g, %.17g): not inside [0,360)", (double)x[0], (double)x[1], (double)x[2]); }
		else if (!(hsv.x >= 0 && hsv.x < T(360))) c.failk(K<T>("hsvColor", "hue-range/other"), "hue = %.17g for the non-grey colour (%.17g, %.17g, %.17g)", (double)hsv.x, (double)x[0], (double)x[1], (double)x[2]);
		if (mx > te) {
			LD th = 8 * (540 * e + (abscmp ? 60 * e / delta : 0));
			LD eh = rc::hue_dist(hsv.x, want[0]);
			if (!(eh == eh)) eh = INFINITY;
			if (th < 180) {
				c.metric("hsvColor hue err/tol", (double)(eh / th));
				if (!(eh <= th)) c.failk(K<T>("hsvColor", abscmp ? "hue/channel-within-epsilon-of-max" : "hue/plain"), "hue = %.17g, reference %.17Lg, err %Lg > tol %Lg", (double)hsv.x, want[0], eh, th);
			}
			if (th <= 3.6L && x[0] != x[1] && x[1] != x[2] && x[0] != x[2]) c.nontrivial();
		}
	}
	// way back: rgb -> hsv -> rgb on the cube
	glm::vec<3, T> back = glm::rgbColor(hsv);
	LD tol = 8 * (e * (LD)mx * (12 * want[1] + 2) + (abscmp ? e : 0)), worst = 0;
	for (int i = 0; i < 3; ++i) { LD err = fabsl((LD)back[i] - (LD)x[i]); if (!(err == err)) err = INFINITY; if (err > worst) worst = err; }
	c.metric("rgbColor(hsvColor) err/tol", (double)(worst / tol));
	if (!(worst <= tol)) c.failk(K<T>("rgbColor(hsvColor)", !hue_defined ? "grey" : abscmp ? "channel-within-epsilon-of-max" : "plain"),
	                          "(%.17g, %.17g, %.17g) -> hsv (%.17g, %.17g, %.17g) -> (%.17g, %.17g, %.17g), err %Lg > tol %Lg", (double)x[0], (double)x[1], (double)x[2], (double)hsv.x, (double)hsv.y, (double)hsv.z, (double)back.x, (double)back.y, (double)back.z, worst, tol);
}
static void rgb2hsv_f(pbt::Ctx& c) { prop_rgb2hsv<float>(c); }
static void rgb2hsv_d(pbt::Ctx& c) { prop_rgb2hsv<double>(c); }
#define RGB2HSV_RULE "rgb in the unit cube: channels from {0,1,...}, k/255, log-uniform, uniform; classes grey, two equal channels, two channels 1-3 ulp apart, primaries/secondaries scaled by v and s (hue exactly on a sector boundary); hsvColor against the textbook formula (hue compared on the circle, bound 60 eps/delta when GLM's absolute-epsilon channel comparison can fire), hue in [0,360), then rgbColor back; non-trivial = three distinct channels, hue well-conditioned"
PBT_RANDOM("rgb_to_hsv/float", rgb2hsv_f, 3000000, 100000000, RGB2HSV_RULE);
PBT_RANDOM("rgb_to_hsv/double", rgb2hsv_d, 3000000, 100000000, RGB2HSV_RULE);

// ---- saturation / luminosity ----------------------------------------------------------------------------------------
template <class T> static void prop_sat(pbt::Ctx& c) {
	const LD e = eps<T>();
	T x[3]; gen_rgb<T>(c, x);
	T s;
	switch (c.draw(4)) { case 0: { static const double S[] = {1.0, 0.0, 0.5, 2.0, -1.0, 0.25}; s = (T)S[c.draw(6)]; break; } case 1: s = (T)c.uniform(-1.0, 3.0); break; default: s = (T)c.unit(); }
	T alpha = gen_moderate<T>(c, 10, 10);
	c.logf("%s s=%.17g rgb=(%.17g, %.17g, %.17g) alpha=%.17g", TN<T>::name(), (double)s, (double)x[0], (double)x[1], (double)x[2], (double)alpha);
	const LD S = s, as = fabsl(S), a1 = fabsl(1 - S);
	LD cc[3] = {x[0], x[1], x[2]}, want[3];
	rc::saturate(S, cc, want);
	if (x[0] == x[1] && x[1] == x[2]) c.cls("grey"); else if (s != 1) c.nontrivial();
	if (s == 1) c.cls("s==1"); if (s == 0) c.cls("s==0");
	// matrix entries: column j, row i = (1-s) w_j + (i==j ? s : 0); 4th row / column of the identity
	glm::mat<4, 4, T> M = glm::saturation(s);
	for (int j = 0; j < 4; ++j) for (int i = 0; i < 4; ++i) {
		LD w = (i < 3 && j < 3) ? (1 - S) * rc::REC709[j] + (i == j ? S : 0) : (i == j ? 1.0L : 0.0L);
		LD tol = 8 * e * (a1 * (j < 3 ? rc::REC709[j] : 0) * 2 + as + 0.5L * a1);
		LD err = fabsl((LD)M[j][i] - w);
		if (i < 3 && j < 3) c.metric("saturation matrix err/tol", (double)(err / tol));
		if (i < 3 && j < 3 ? !(err <= tol) : !(M[j][i] == (T)w)) c.failk(K<T>("saturation(s)", i < 3 && j < 3 ? (i == j ? "diagonal" : "off-diagonal") : "homogeneous-part"), "M[%d][%d] = %.17g, expected %.17Lg (s=%.9g)", j, i, (double)M[j][i], w, (double)s);
	}
	if (s == 1) for (int j = 0; j < 4; ++j) for (int i = 0; i < 4; ++i) if (!(M[j][i] == (i == j ? T(1) : T(0)))) c.failk(K<T>("saturation(s)", "s==1-identity"), "saturation(1)[%d][%d] = %.17g", j, i, (double)M[j][i]);
	glm::vec<3, T> r3 = glm::saturation(s, glm::vec<3, T>(x[0], x[1], x[2]));
	glm::vec<4, T> r4 = glm::saturation(s, glm::vec<4, T>(x[0], x[1], x[2], alpha));
	LD L = rc::absdot3(cc, rc::REC709);
	for (int i = 0; i < 3; ++i) {
		LD tol = 8 * e * (3 * a1 * L + 2 * as * fabsl(cc[i])) + 8 * std::numeric_limits<T>::denorm_min();
		LD e3 = fabsl((LD)r3[i] - want[i]), e4 = fabsl((LD)r4[i] - want[i]);
		c.metric("saturation(s,color) err/tol", (double)((e3 > e4 ? e3 : e4) / tol));
		if (!(e3 <= tol)) c.failk(K<T>("saturation(s,vec3)", "value"), "channel %d = %.17g, expected %.17Lg", i, (double)r3[i], want[i]);
		if (!(e4 <= tol)) c.failk(K<T>("saturation(s,vec4)", "value"), "channel %d = %.17g, expected %.17Lg", i, (double)r4[i], want[i]);
	}
	if (!(r4.w == alpha)) c.failk(K<T>("saturation(s,vec4)", "alpha"), "alpha %.17g -> %.17g", (double)alpha, (double)r4.w);
	// grey levels are preserved for every s; s == 0 maps every colour to a grey
	{
		T k = x[0];
		glm::vec<3, T> g = glm::saturation(s, glm::vec<3, T>(k));
		LD tol = 8 * e * (LD)k * (3 * a1 + 2 * as) + 8 * std::numeric_limits<T>::denorm_min(), worst = 0;
		for (int i = 0; i < 3; ++i) { LD er = fabsl((LD)g[i] - (LD)k); if (er > worst) worst = er; }
		c.metric("saturation grey err/tol", (double)(worst / tol));
		if (!(worst <= tol)) c.failk(K<T>("saturation(s,vec3)", "grey-preserved"), "grey %.17g -> (%.17g, %.17g, %.17g) with s=%.9g", (double)k, (double)g.x, (double)g.y, (double)g.z, (double)s);
		glm::vec<3, T> z = glm::saturation(T(0), glm::vec<3, T>(x[0], x[1], x[2]));
		LD tz = 8 * e * L * 3 + 8 * std::numeric_limits<T>::denorm_min();
		if (!(fabsl((LD)z.x - (LD)z.y) <= tz && fabsl((LD)z.y - (LD)z.z) <= tz)) c.failk(K<T>("saturation(s,vec3)", "s==0-gives-grey"), "saturation(0, (%.9g,%.9g,%.9g)) = (%.17g, %.17g, %.17g)", (double)x[0], (double)x[1], (double)x[2], (double)z.x, (double)z.y, (double)z.z);
	}
	// luminosity: documented weights (0.33, 0.59, 0.11); a grey level k therefore maps to 1.03 k
	{
		T lum = glm::luminosity(glm::vec<3, T>(x[0], x[1], x[2]));
		LD w = rc::dot3(cc, rc::LUMI_W), tol = 8 * e * 3 * rc::absdot3(cc, rc::LUMI_W) + 8 * std::numeric_limits<T>::denorm_min(), err = fabsl((LD)lum - w);
		c.metric("luminosity err/tol", (double)(err / tol));
		if (!(err <= tol)) c.failk(K<T>("luminosity", "value"), "luminosity = %.17g, dot(c,(0.33,0.59,0.11)) = %.17Lg", (double)lum, w);
		T k = x[1];
		T lg = glm::luminosity(glm::vec<3, T>(k));
		LD tg = 8 * e * 3 * 1.03L * (LD)k + 8 * std::numeric_limits<T>::denorm_min();
		if (!(fabsl((LD)lg - 1.03L * (LD)k) <= tg)) c.failk(K<T>("luminosity", "grey"), "luminosity(grey %.17g) = %.17g, expected 1.03 k", (double)k, (double)lg);
	}
}
static void sat_f(pbt::Ctx& c) { prop_sat<float>(c); }
static void sat_d(pbt::Ctx& c) { prop_sat<double>(c); }
#define SAT_RULE "rgb as in rgb_to_hsv, s from {1,0,0.5,2,-1,0.25}, uniform [0,1) or [-1,3], finite alpha; saturation(s) entries, saturation(s,vec3/vec4) against L + s(c-L) with Rec.709 weights, alpha kept, grey kept, s=0 gives grey, s=1 identity; luminosity against its documented weights; non-trivial = non-grey colour and s != 1"
PBT_RANDOM("saturation_luminosity/float", sat_f, 2000000, 50000000, SAT_RULE);
PBT_RANDOM("saturation_luminosity/double", sat_d, 2000000, 50000000, SAT_RULE);

// ---- YCoCg / YCoCg-R on floating point ---------------------------------------------------------------------------------
template <class T> static void prop_ycocg(pbt::Ctx& c) {
	const LD e = eps<T>(), dn = std::numeric_limits<T>::denorm_min();
	T x[3]; gen_rgb<T>(c, x);
	c.logf("%s rgb=(%.17g, %.17g, %.17g)", TN<T>::name(), (double)x[0], (double)x[1], (double)x[2]);
	typedef glm::vec<3, T> V;
	LD cc[3] = {x[0], x[1], x[2]}, w[3], wr[3];
	rc::rgb2ycocg(cc, w); rc::rgb2ycocgr_real(cc, wr);
	LD mag = fabsl(cc[0]) + fabsl(cc[1]) + fabsl(cc[2]);
	if (x[0] != x[1] && x[1] != x[2] && x[0] != x[2]) c.nontrivial(); else c.cls("repeated-channel");
	V y = glm::rgb2YCoCg(V(x[0], x[1], x[2])), yr = glm::rgb2YCoCgR(V(x[0], x[1], x[2]));
	static const char* CH[3] = {"Y", "Co", "Cg"};
	LD tol = 8 * e * mag + 8 * dn;
	for (int i = 0; i < 3; ++i) {
		LD e1 = fabsl((LD)y[i] - w[i]), e2 = fabsl((LD)yr[i] - wr[i]);
		c.metric("rgb2YCoCg err/tol", (double)(e1 / tol)); c.metric("rgb2YCoCgR(float) err/tol", (double)(e2 / tol));
		if (!(e1 <= tol)) c.failk(K<T>("rgb2YCoCg", CH[i]), "%s = %.17g, expected %.17Lg", CH[i], (double)y[i], w[i]);
		if (!(e2 <= tol)) c.failk(K<T>("rgb2YCoCgR", CH[i]), "%s = %.17g, expected %.17Lg", CH[i], (double)yr[i], wr[i]);
	}
	// range: Y in [0,1], Co and Cg in [-1/2,1/2] (YCoCg) resp. [-1,1] (YCoCg-R) on the cube
	if (!(y.x >= 0 && (LD)y.x <= 1 + 4 * e && fabsl(y.y) <= 0.5L + 4 * e && fabsl(y.z) <= 0.5L + 4 * e)) c.failk(K<T>("rgb2YCoCg", "range"), "(%.17g, %.17g, %.17g) leaves [0,1]x[-.5,.5]^2", (double)y.x, (double)y.y, (double)y.z);
	if (!(yr.x >= 0 && (LD)yr.x <= 1 + 4 * e && fabsl(yr.y) <= 1 + 4 * e && fabsl(yr.z) <= 1 + 4 * e)) c.failk(K<T>("rgb2YCoCgR", "range"), "(%.17g, %.17g, %.17g) leaves [0,1]x[-1,1]^2", (double)yr.x, (double)yr.y, (double)yr.z);
	// inverse transforms on an arbitrary in-range YCoCg triple (the forward image of the colour, taken from the reference)
	V yin((T)w[0], (T)w[1], (T)w[2]), yrin((T)wr[0], (T)wr[1], (T)wr[2]);
	LD yi[3] = {yin.x, yin.y, yin.z}, yri[3] = {yrin.x, yrin.y, yrin.z}, b[3], br[3];
	rc::ycocg2rgb(yi, b); rc::ycocgr2rgb_real(yri, br);
	V r1 = glm::YCoCg2rgb(yin), r2 = glm::YCoCgR2rgb(yrin), t1 = glm::YCoCg2rgb(y), t2 = glm::YCoCgR2rgb(yr);
	static const char* RC[3] = {"r", "g", "b"};
	for (int i = 0; i < 3; ++i) {
		LD ti = 8 * e * 2 * (fabsl(yi[0]) + fabsl(yi[1]) + fabsl(yi[2])) + 8 * dn, tri = 8 * e * 2 * (fabsl(yri[0]) + fabsl(yri[1]) + fabsl(yri[2])) + 8 * dn;
		LD e1 = fabsl((LD)r1[i] - b[i]), e2 = fabsl((LD)r2[i] - br[i]);
		c.metric("YCoCg2rgb err/tol", (double)(e1 / ti)); c.metric("YCoCgR2rgb(float) err/tol", (double)(e2 / tri));
		if (!(e1 <= ti)) c.failk(K<T>("YCoCg2rgb", RC[i]), "%s = %.17g, expected %.17Lg", RC[i], (double)r1[i], b[i]);
		if (!(e2 <= tri)) c.failk(K<T>("YCoCgR2rgb", RC[i]), "%s = %.17g, expected %.17Lg", RC[i], (double)r2[i], br[i]);
		// round trips on the cube
		LD tr = 8 * e * 3 * mag + 8 * dn;
		LD e3 = fabsl((LD)t1[i] - cc[i]), e4 = fabsl((LD)t2[i] - cc[i]);
		c.metric("YCoCg2rgb(rgb2YCoCg) err/tol", (double)(e3 / tr)); c.metric("YCoCgR2rgb(rgb2YCoCgR) float err/tol", (double)(e4 / tr));
		if (!(e3 <= tr)) c.failk(K<T>("YCoCg2rgb(rgb2YCoCg)", RC[i]), "%s: %.17g came back as %.17g", RC[i], (double)x[i], (double)t1[i]);
		if (!(e4 <= tr)) c.failk(K<T>("YCoCgR2rgb(rgb2YCoCgR)", RC[i]), "%s: %.17g came back as %.17g", RC[i], (double)x[i], (double)t2[i]);
	}
}
static void ycocg_f(pbt::Ctx& c) { prop_ycocg<float>(c); }
static void ycocg_d(pbt::Ctx& c) { prop_ycocg<double>(c); }
#define YCOCG_RULE "rgb in the unit cube (as rgb_to_hsv); rgb2YCoCg, YCoCg2rgb and the floating-point rgb2YCoCgR, YCoCgR2rgb against the Malvar-Sullivan definitions in long double, ranges, both round trips; non-trivial = three distinct channels (a swapped channel is visible)"
PBT_RANDOM("ycocg/float", ycocg_f, 3000000, 100000000, YCOCG_RULE);
PBT_RANDOM("ycocg/double", ycocg_d, 3000000, 100000000, YCOCG_RULE);

// ---- integer YCoCg-R: exactly lossless ------------------------------------------------------------------------------------
// idx enumerates 2^24 triples. depth 8: the triple itself (for signed 8-bit types the 256 values of the type). depth 16: a lattice,
// high byte from idx, low byte drawn at random (both parities of every difference occur).
template <class T, int DEPTH> static void prop_ycocgr(pbt::Ctx& c, const char* tn) {
	typedef glm::vec<3, T> V;
	typedef typename std::make_unsigned<T>::type U;
	uint64_t idx = c.draw(1ULL << 24);
	int64_t ch[3];
	for (int i = 0; i < 3; ++i) {
		uint64_t b = (idx >> (8 * i)) & 255;
		if (DEPTH == 16) b = (b << 8) | c.draw(256);
		ch[i] = (int64_t)b;
	}
	V rgb((T)(U)ch[0], (T)(U)ch[1], (T)(U)ch[2]);  // for a signed type of exactly DEPTH bits this is the type's own two's-complement value
	c.logf("%s depth %d rgb=(%lld, %lld, %lld)", tn, DEPTH, (long long)rgb.x, (long long)rgb.y, (long long)rgb.z);
	if (ch[0] != ch[1] && ch[1] != ch[2] && ch[0] != ch[2]) c.nontrivial(); else c.cls("repeated-channel");
	if ((ch[0] - ch[2]) & 1) c.cls("Co-odd"); else c.cls("Co-even");
	V y = glm::rgb2YCoCgR(rgb);
	V back = glm::YCoCgR2rgb(y);
	if (!(back.x == rgb.x && back.y == rgb.y && back.z == rgb.z))
		c.failk(std::string("YCoCgR2rgb(rgb2YCoCgR)/") + tn + "/lossless", "(%lld, %lld, %lld) -> YCoCgR (%lld, %lld, %lld) -> (%lld, %lld, %lld)", (long long)rgb.x, (long long)rgb.y, (long long)rgb.z, (long long)y.x, (long long)y.y, (long long)y.z, (long long)back.x, (long long)back.y, (long long)back.z);
	// the same triple read as a YCoCg-R code: the lifting steps are a bijection of T^3, so this direction is lossless too
	V rr = glm::YCoCgR2rgb(rgb);
	V yy = glm::rgb2YCoCgR(rr);
	if (!(yy.x == rgb.x && yy.y == rgb.y && yy.z == rgb.z))
		c.failk(std::string("rgb2YCoCgR(YCoCgR2rgb)/") + tn + "/lossless", "code (%lld, %lld, %lld) -> rgb (%lld, %lld, %lld) -> (%lld, %lld, %lld)", (long long)rgb.x, (long long)rgb.y, (long long)rgb.z, (long long)rr.x, (long long)rr.y, (long long)rr.z, (long long)yy.x, (long long)yy.y, (long long)yy.z);
	// signed element types wide enough for the DEPTH+1-bit chroma: the values are those of the paper (Y in [0,2^N), Co, Cg in (-2^N,2^N))
	if (std::is_signed<T>::value && (int)sizeof(T) * 8 > DEPTH + 1) {
		int64_t w[3], in[3] = {ch[0], ch[1], ch[2]};
		rc::rgb2ycocgr_int(in, w);
		static const char* CH[3] = {"Y", "Co", "Cg"};
		for (int i = 0; i < 3; ++i) if ((int64_t)y[i] != w[i]) c.failk(std::string("rgb2YCoCgR/") + tn + "/" + CH[i], "rgb (%lld, %lld, %lld): %s = %lld, YCoCg-R definition gives %lld", (long long)ch[0], (long long)ch[1], (long long)ch[2], CH[i], (long long)y[i], (long long)w[i]);
		int64_t code[3] = {w[0], w[1], w[2]}, bk[3];
		rc::ycocgr2rgb_int(code, bk);
		V r2 = glm::YCoCgR2rgb(V((T)w[0], (T)w[1], (T)w[2]));
		static const char* RC[3] = {"r", "g", "b"};
		for (int i = 0; i < 3; ++i) if ((int64_t)r2[i] != bk[i]) c.failk(std::string("YCoCgR2rgb/") + tn + "/" + RC[i], "code (%lld, %lld, %lld): %s = %lld, definition gives %lld", (long long)w[0], (long long)w[1], (long long)w[2], RC[i], (long long)r2[i], (long long)bk[i]);
		c.cls("checked-against-definition");
	}
}
// full colour depth of the wide element types: unsigned 32/64-bit triples over the whole type (the lifting steps are exactly invertible
// modulo 2^n, so wrap-around is harmless), signed 32/64-bit triples of depth bits-2 (no intermediate of the paper's steps overflows).
// Components are drawn with a random bit length so that every magnitude from 2^0 to the full width occurs.
template <class T> static void prop_ycocgr_wide(pbt::Ctx& c, const char* tn) {
	typedef glm::vec<3, T> V;
	typedef typename std::make_unsigned<T>::type U;
	const int W = (int)sizeof(T) * 8, D = std::is_signed<T>::value ? W - 2 : W;
	U ch[3]; int maxlen = 0;
	for (int i = 0; i < 3; ++i) {
		int len = 1 + (int)c.draw((uint64_t)D);
		uint64_t v = c.draw(0);
		if (len < 64) v &= (1ULL << len) - 1;
		if (len > 1 && c.draw(4)) v |= 1ULL << (len - 1);  // usually exactly `len` significant bits
		ch[i] = (U)v;
		int l = 0; for (uint64_t t = (uint64_t)ch[i]; t; t >>= 1) ++l;
		if (l > maxlen) maxlen = l;
	}
	V rgb((T)ch[0], (T)ch[1], (T)ch[2]);
	c.logf("%s wide rgb=(%llu, %llu, %llu)", tn, (unsigned long long)ch[0], (unsigned long long)ch[1], (unsigned long long)ch[2]);
	if (ch[0] != ch[1] && ch[1] != ch[2] && ch[0] != ch[2]) c.nontrivial(); else c.cls("repeated-channel");
	c.cls(maxlen > 32 ? "depth>32" : maxlen > 16 ? "depth17-32" : "depth<=16");
	V y = glm::rgb2YCoCgR(rgb);
	V back = glm::YCoCgR2rgb(y);
	if (!(back.x == rgb.x && back.y == rgb.y && back.z == rgb.z))
		c.failk(std::string("YCoCgR2rgb(rgb2YCoCgR)/") + tn + "/lossless/wide", "(%llu, %llu, %llu) -> YCoCgR (%llu, %llu, %llu) -> (%llu, %llu, %llu)", (unsigned long long)(U)rgb.x, (unsigned long long)(U)rgb.y, (unsigned long long)(U)rgb.z, (unsigned long long)(U)y.x, (unsigned long long)(U)y.y, (unsigned long long)(U)y.z, (unsigned long long)(U)back.x, (unsigned long long)(U)back.y, (unsigned long long)(U)back.z);
	if (!std::is_signed<T>::value) {  // the other direction: any unsigned triple read as a code (for signed types it could overflow)
		V rr = glm::YCoCgR2rgb(rgb);
		V yy = glm::rgb2YCoCgR(rr);
		if (!(yy.x == rgb.x && yy.y == rgb.y && yy.z == rgb.z))
			c.failk(std::string("rgb2YCoCgR(YCoCgR2rgb)/") + tn + "/lossless/wide", "code (%llu, %llu, %llu) -> rgb (%llu, %llu, %llu) -> (%llu, %llu, %llu)", (unsigned long long)(U)rgb.x, (unsigned long long)(U)rgb.y, (unsigned long long)(U)rgb.z, (unsigned long long)(U)rr.x, (unsigned long long)(U)rr.y, (unsigned long long)(U)rr.z, (unsigned long long)(U)yy.x, (unsigned long long)(U)yy.y, (unsigned long long)(U)yy.z);
	} else {
		int64_t w[3], in[3] = {(int64_t)ch[0], (int64_t)ch[1], (int64_t)ch[2]};
		rc::rgb2ycocgr_int(in, w);
		static const char* CH[3] = {"Y", "Co", "Cg"};
		for (int i = 0; i < 3; ++i) if ((int64_t)y[i] != w[i]) c.failk(std::string("rgb2YCoCgR/") + tn + "/wide/" + CH[i], "rgb (%lld, %lld, %lld): %s = %lld, YCoCg-R definition gives %lld", (long long)in[0], (long long)in[1], (long long)in[2], CH[i], (long long)y[i], (long long)w[i]);
		c.cls("checked-against-definition");
	}
}
#define RW "random triples over the element type's full colour depth (unsigned: all of the type; signed: bits-2), component bit length uniform in 1..depth: exact round trip, for unsigned types both ways, for signed types also equality with the paper's lifting steps; non-trivial = three distinct channels"
#define YRW(T, N) \
	static void ycocgr_wide_##N(pbt::Ctx& c) { prop_ycocgr_wide<T>(c, #N); } \
	PBT_RANDOM("ycocgr_int/" #N "/wide", ycocgr_wide_##N, 1000000, 50000000, RW)
YRW(glm::uint32, uvec3);
YRW(glm::int32, ivec3);
YRW(glm::uint64, u64vec3);
YRW(glm::int64, i64vec3);
#define YR(T, N, DEPTH, QS, RULE) \
	static void ycocgr_##N##_##DEPTH(pbt::Ctx& c) { prop_ycocgr<T, DEPTH>(c, #N); } \
	PBT_SWEEP("ycocgr_int/" #N "/depth" #DEPTH, ycocgr_##N##_##DEPTH, 1ULL << 24, QS, 1, RULE)
#define R8 "all 2^24 8-bit triples: YCoCgR2rgb(rgb2YCoCgR(c)) == c and rgb2YCoCgR(YCoCgR2rgb(c)) == c exactly; for signed types wider than 9 bits also equality with the paper's lifting steps; non-trivial = three distinct channels"
#define R16 "2^24-point lattice of 16-bit triples (every high byte combination, random low bytes): exact round trips both ways; for signed types wider than 17 bits also equality with the paper's lifting steps; non-trivial = three distinct channels"
YR(glm::uint8, u8vec3, 8, 1, R8);
YR(glm::int8, i8vec3, 8, 1, R8);
YR(glm::int16, i16vec3, 8, 1, R8);
YR(glm::uint16, u16vec3, 8, 4, R8);
YR(glm::int32, ivec3, 8, 1, R8);
YR(glm::uint32, uvec3, 8, 4, R8);
YR(glm::int64, i64vec3, 8, 4, R8);
YR(glm::int16, i16vec3, 16, 1, R16);
YR(glm::uint16, u16vec3, 16, 1, R16);
YR(glm::int32, ivec3, 16, 1, R16);
YR(glm::uint32, uvec3, 16, 4, R16);
YR(glm::int64, i64vec3, 16, 4, R16);
