// C12 (part 1 of 2) — core geometric functions of glm/geometric.hpp on vec1..4 and the scalar (genType) overloads,
// float and double: dot, length, distance, cross, normalize, faceforward, reflect, refract.
// Oracle: the documented formula (doc comments of glm/geometric.hpp = GLSL 4.20 section 8.5) evaluated in long double
// (engine/ref/refgeom.hpp, no GLM code) with a forward-error bound of that formula (x8 margin, relative to the largest
// intermediate term, so cancellation weakens the bound instead of raising alarms), plus the Euclidean identities
// of the property statement evaluated in long double on GLM's own results. Part 2 (C12_gtx.cpp) covers the gtx helpers.
#include "fp.hpp"
#include "ref/refgeom.hpp"
#include <glm/glm.hpp>
#include <glm/geometric.hpp>

using namespace refgeom;

template <class T, int L> static glm::vec<L, T> G(const T* v) { glm::vec<L, T> r(0); for (int i = 0; i < L; ++i) r[i] = v[i]; return r; }
template <class T, int L> static void X(const glm::vec<L, T>& g, T* v) { for (int i = 0; i < 4; ++i) v[i] = i < L ? g[i] : T(0); }
static std::string key(const char* fn, int L, const char* what) { return std::string(fn) + (L ? "/vec" + std::to_string(L) : std::string("/scalar")) + "/" + what; }
static inline bool within(pbt::Ctx& c, const char* metric, R err, R tol) { R r = err == 0 ? 0 : err / tol; c.metric(metric, r < 1e30L ? (double)r : 1e30); return err <= tol; }  // (NaN/inf error: finite metric, check fails)
template <class T> static R norm_of(const T* v, int L) { R r[4]; lift(v, r); return norm(r, L); }
#define DISPATCH_L(fn) switch (c.draw(4)) { case 0: fn<T, 3>(c); break; case 1: fn<T, 2>(c); break; case 2: fn<T, 4>(c); break; default: fn<T, 1>(c); break; }
#define REG2(fn, name, q, t, rule) \
	static void fn##_f(pbt::Ctx& c) { fn<float>(c); } PBT_RANDOM(name "/float", fn##_f, q, t, rule); \
	static void fn##_d(pbt::Ctx& c) { fn<double>(c); } PBT_RANDOM(name "/double", fn##_d, q, t, rule)

// =============================================================================================
// dot, length, distance (vec1..4 and scalar)
//   dot: sum of L rounded products, L-1 rounded additions: |err| <= L u sum|a_i b_i|
//   length = sqrt(dot(v,v)): relative error <= (L/2 + 1) u (all terms positive); distance adds one rounding per difference
template <class T, int L> static void basic_L(pbt::Ctx& c) {
	T a[4], b[4];
	int rel = gen_pair<T>(c, L, a, b, 20);
	c.cls(REL_NAME[rel]);
	if (c.verbose) c.logf("L=%d a=%s b=%s (%s)", L, vstr(a, L).c_str(), vstr(b, L).c_str(), REL_KEY[rel]);
	R ra[4], rb[4]; lift(a, ra); lift(b, rb);
	const R u = U<T>();
	glm::vec<L, T> A = G<T, L>(a), B = G<T, L>(b);
	R d = dot(ra, rb, L), S = adot(ra, rb, L);
	if (L >= 2 ? (distinct_mags(a, L) && distinct_mags(b, L) && d != 0) : (a[0] != 0 && b[0] != 0 && a[0] != b[0])) c.nontrivial();
	if (d == 0) c.cls("dot=0");
	{
		T g = glm::dot(A, B);
		if (!within(c, "dot err/tol", rabs((R)g - d), 8 * L * u * S + TINY<T>()))
			c.failk(key("dot", L, "sum-of-products"), "dot(%s,%s)=%.17g, sum of component products %.17Lg (scale %.3Lg)", vstr(a, L).c_str(), vstr(b, L).c_str(), (double)g, d, S);
		T g2 = glm::dot(B, A);
		if (!fp::same_value(g, g2)) c.failk(key("dot", L, "commutative"), "dot(a,b)=%.17g but dot(b,a)=%.17g for a=%s b=%s", (double)g, (double)g2, vstr(a, L).c_str(), vstr(b, L).c_str());
	}
	{
		R la = norm(ra, L);
		T g = glm::length(A);
		if (!within(c, "length err/tol", rabs((R)g - la), 8 * (0.5L * L + 1) * u * la + TINY<T>()))
			c.failk(key("length", L, "value"), "length(%s)=%.17g, expected %.17Lg", vstr(a, L).c_str(), (double)g, la);
		T s = std::sqrt(glm::dot(A, A));
		if (!fp::same_value(g, s)) c.failk(key("length", L, "sqrt-dot"), "length(%s)=%.17g but sqrt(dot(v,v))=%.17g", vstr(a, L).c_str(), (double)g, (double)s);
	}
	{
		R rd[4]; sub(ra, rb, rd, L);
		R ld = norm(rd, L);
		T g = glm::distance(A, B);
		if (!within(c, "distance err/tol", rabs((R)g - ld), 8 * (0.5L * L + 2) * u * ld + TINY<T>()))
			c.failk(key("distance", L, "value"), "distance(%s,%s)=%.17g, expected %.17Lg", vstr(a, L).c_str(), vstr(b, L).c_str(), (double)g, ld);
		T df[4] = {0, 0, 0, 0}; for (int i = 0; i < L; ++i) df[i] = a[i] - b[i];
		T lg = glm::length(G<T, L>(df));
		if (!fp::same_value(g, lg)) c.failk(key("distance", L, "length-of-difference"), "distance(a,b)=%.17g but length(a-b)=%.17g for a=%s b=%s", (double)g, (double)lg, vstr(a, L).c_str(), vstr(b, L).c_str());
		T gs = glm::distance(B, A);
		if (!fp::same_value(g, gs)) c.failk(key("distance", L, "symmetric"), "distance(a,b)=%.17g, distance(b,a)=%.17g", (double)g, (double)gs);
	}
	if (L == 1) {  // scalar overloads: single correctly rounded operations -> VALUE
		T x = a[0], y = b[0];
		T g;
		if (!fp::same_value(g = glm::dot(x, y), x * y)) c.failk(key("dot", 0, "product"), "dot(%.17g,%.17g)=%.17g, expected %.17g", (double)x, (double)y, (double)g, (double)(x * y));
		if (!fp::same_value(g = glm::length(x), std::fabs(x))) c.failk(key("length", 0, "abs"), "length(%.17g)=%.17g", (double)x, (double)g);
		if (!fp::same_value(g = glm::distance(x, y), std::fabs(x - y))) c.failk(key("distance", 0, "abs-difference"), "distance(%.17g,%.17g)=%.17g, expected %.17g", (double)x, (double)y, (double)g, (double)std::fabs(x - y));
	}
}
template <class T> static void basic(pbt::Ctx& c) { DISPATCH_L(basic_L) }
REG2(basic, "dot_length_distance", 2000000, 100000000,
     "pairs of non-zero vectors, L=1..4 (+ scalar overloads at L=1), component magnitudes 2^-20..2^20 mixed / small ints / axis-aligned / same scale, relation independent / exactly orthogonal / "
     "parallel / antiparallel / nearly parallel / equal; non-trivial = both vectors have pairwise distinct non-zero |components| (a wrong index is visible) and dot != 0");

// =============================================================================================
// cross (vec3): determinant formula; each component = difference of two rounded products: |err_i| <= 2u (|a_j b_k| + |a_k b_j|)
template <class T> static void cross3p(pbt::Ctx& c) {
	T a[4], b[4];
	int rel = gen_pair<T>(c, 3, a, b, 20);
	c.cls(REL_NAME[rel]);
	if (c.verbose) c.logf("a=%s b=%s (%s)", vstr(a, 3).c_str(), vstr(b, 3).c_str(), REL_KEY[rel]);
	R ra[4], rb[4], x[4], s[4]; lift(a, ra); lift(b, rb); cross3(ra, rb, x); cross3_scale(ra, rb, s);
	const R u = U<T>();
	glm::vec<3, T> A = G<T, 3>(a), B = G<T, 3>(b);
	glm::vec<3, T> gx = glm::cross(A, B), gy = glm::cross(B, A), gz = glm::cross(A, A);
	T g[4]; X<T, 3>(gx, g);
	R rg[4]; lift(g, rg);
	if (distinct_mags(a, 3) && distinct_mags(b, 3)) c.nontrivial();
	if (x[0] == 0 && x[1] == 0 && x[2] == 0) c.cls("exact-cross=0");
	R oa = 0, ob = 0;
	for (int i = 0; i < 3; ++i) {
		R tol = 8 * 2 * u * s[i] + TINY<T>();
		if (!within(c, "cross component err/tol", rabs(rg[i] - x[i]), tol))
			c.failk(key("cross", 3, "determinant-formula"), "cross(%s,%s)[%d]=%.17g, expected %.17Lg (scale %.3Lg)", vstr(a, 3).c_str(), vstr(b, 3).c_str(), i, (double)g[i], x[i], s[i]);
		oa += tol * rabs(ra[i]); ob += tol * rabs(rb[i]);
		if (!fp::same_value(gy[i], -gx[i])) c.failk(key("cross", 3, "anti-commutative"), "cross(a,b)[%d]=%.17g, cross(b,a)[%d]=%.17g for a=%s b=%s", i, (double)gx[i], i, (double)gy[i], vstr(a, 3).c_str(), vstr(b, 3).c_str());
		else if (gx[i] == 0 && fp::sign_bit(gy[i]) == fp::sign_bit(gx[i])) c.cls("zero-sign-differs(counted)");
		if (gz[i] != 0) c.failk(key("cross", 3, "self"), "cross(a,a)[%d]=%.17g for a=%s", i, (double)gz[i], vstr(a, 3).c_str());
	}
	// orthogonality of GLM's own result, evaluated in long double: exact cross is orthogonal, so |g.a| <= sum err_i |a_i|
	if (!within(c, "cross.a err/tol", rabs(dot(rg, ra, 3)), oa + TINY<T>()))
		c.failk(key("cross", 3, "orthogonal-to-first"), "cross(%s,%s)=%s, dot with first argument %.6Lg exceeds the cancellation bound %.6Lg", vstr(a, 3).c_str(), vstr(b, 3).c_str(), vstr(g, 3).c_str(), dot(rg, ra, 3), oa);
	if (!within(c, "cross.b err/tol", rabs(dot(rg, rb, 3)), ob + TINY<T>()))
		c.failk(key("cross", 3, "orthogonal-to-second"), "cross(%s,%s)=%s, dot with second argument %.6Lg exceeds the cancellation bound %.6Lg", vstr(a, 3).c_str(), vstr(b, 3).c_str(), vstr(g, 3).c_str(), dot(rg, rb, 3), ob);
}
REG2(cross3p, "cross", 2000000, 100000000,
     "pairs of non-zero vec3 (magnitudes 2^-20..2^20) incl. exactly/nearly orthogonal, parallel, antiparallel, nearly parallel (cancellation) and equal; determinant formula per component, "
     "orthogonality to both arguments in long double, cross(b,a) = -cross(a,b), cross(a,a) = 0; non-trivial = pairwise distinct non-zero |components| in both arguments");

// =============================================================================================
// normalize: v * inversesqrt(dot(v,v)): relative error per component <= (L/2 + 3) u
template <class T, int L> static void normalize_L(pbt::Ctx& c) {
	T v[4];
	int vc = gen_vec<T>(c, L, v, 20);
	c.cls(VC_NAME[vc]);
	if (c.verbose) c.logf("L=%d v=%s", L, vstr(v, L).c_str());
	R rv[4]; lift(v, rv);
	const R u = U<T>(), n = norm(rv, L), rel = 8 * (0.5L * L + 3) * u;
	T g[4]; X<T, L>(glm::normalize(G<T, L>(v)), g);
	R rg[4]; lift(g, rg);
	if (L >= 2 ? (nonzeros(v, L) >= 2 && distinct_mags(v, L)) : (std::fabs(v[0]) != 1)) c.nontrivial();
	for (int i = 0; i < L; ++i) {
		R want = rv[i] / n;
		if (!within(c, "normalize component err/tol", rabs(rg[i] - want), rel * rabs(want) + TINY<T>()))
			c.failk(key("normalize", L, "v-over-length"), "normalize(%s)[%d]=%.17g, expected %.17Lg", vstr(v, L).c_str(), i, (double)g[i], want);
		if (v[i] == 0 ? (g[i] != 0) : !(g[i] * v[i] > 0))
			c.failk(key("normalize", L, "positive-multiple"), "normalize(%s)[%d]=%.17g does not have the sign of the input component", vstr(v, L).c_str(), i, (double)g[i]);
	}
	if (!within(c, "normalize |len-1| err/tol", rabs(norm(rg, L) - 1), rel))
		c.failk(key("normalize", L, "unit-length"), "normalize(%s)=%s has length %.17Lg", vstr(v, L).c_str(), vstr(g, L).c_str(), norm(rg, L));
}
template <class T> static void normalizep(pbt::Ctx& c) { DISPATCH_L(normalize_L) }
REG2(normalizep, "normalize", 2000000, 100000000,
     "non-zero vectors L=1..4, magnitudes 2^-20..2^20 mixed / small ints / axis-aligned / same scale; components against v_i/|v| in long double, unit length, every component keeps the sign of "
     "its input (positive multiple); non-trivial = at least two non-zero components with pairwise distinct magnitudes (L=1: |v| != 1)");

// =============================================================================================
// faceforward: "If dot(Nref, I) < 0.0, return N, otherwise, return -N" — the returned vector must equal N or -N component by
// component (VALUE: GLM's unary minus is 0 - v, so a zero component of -N comes back as +0; that is counted, not failed).
// The side is decided in long double; when |dot| is within the rounding bound of the float dot (8 L u sum|..|) either side is
// accepted, except when all components are small integers (every product and sum is exact in T, so dot = 0 must give -N).
template <class T> static bool val_eq(const T* a, const T* b, int L, bool neg) { for (int i = 0; i < L; ++i) { T w = neg ? -b[i] : b[i]; if (!(a[i] == w)) return false; } return true; }
template <class T> static bool bits_eq(const T* a, const T* b, int L, bool neg) { for (int i = 0; i < L; ++i) { T w = neg ? -b[i] : b[i]; if (!fp::same_bits(a[i], w)) return false; } return true; }
template <class T, int L> static void faceforward_L(pbt::Ctx& c) {
	T n[4], in[4], nr[4];
	gen_vec<T>(c, L, n, 10);
	int rel = gen_pair<T>(c, L, in, nr, 10);
	c.cls(REL_NAME[rel]);
	// faceforward has no precondition on I and Nref: a zero vector is the only way to reach dot = 0 in one dimension (scalar overload)
	if (c.draw(16) == 0) { T* z = c.coin() ? in : nr; for (int i = 0; i < L; ++i) z[i] = c.coin() ? T(0) : -T(0); c.cls("I or Nref is the zero vector"); }
	if (c.verbose) c.logf("L=%d N=%s I=%s Nref=%s (%s)", L, vstr(n, L).c_str(), vstr(in, L).c_str(), vstr(nr, L).c_str(), REL_KEY[rel]);
	R ri[4], rr[4]; lift(in, ri); lift(nr, rr);
	R d = dot(rr, ri, L), band = 8 * L * U<T>() * adot(rr, ri, L);
	bool exact = all_small_int(in, L) && all_small_int(nr, L);
	const char* icls;
	int want;  // +1: N, -1: -N, 0: either
	if (exact || rabs(d) > band) { want = d < 0 ? 1 : -1; icls = d < 0 ? "dot<0" : (d > 0 ? "dot>0" : "dot=0"); c.nontrivial(); }
	else { want = 0; icls = "dot-within-rounding-of-0"; }
	c.cls(d < 0 ? (want ? "dot<0" : "dot<0 within rounding (either side accepted)") : d > 0 ? (want ? "dot>0" : "dot>0 within rounding (either side accepted)") : (want ? "dot=0 exact arithmetic" : "dot=0 inexact arithmetic (either side accepted)"));
	for (int pass = 0; pass < (L == 1 ? 2 : 1); ++pass) {
		T g[4] = {0, 0, 0, 0};
		if (pass == 0) X<T, L>(glm::faceforward(G<T, L>(n), G<T, L>(in), G<T, L>(nr)), g);
		else g[0] = glm::faceforward(n[0], in[0], nr[0]);
		int LL = pass ? 0 : L;
		bool isN = val_eq(g, n, L, false), isM = val_eq(g, n, L, true);
		if ((isN && !bits_eq(g, n, L, false)) || (isM && !isN && !bits_eq(g, n, L, true))) c.cls("zero-sign-differs(counted)");
		if (!isN && !isM) c.failk(key("faceforward", LL, "neither-N-nor-minus-N"), "faceforward(N=%s,I=%s,Nref=%s)=%s is neither N nor -N", vstr(n, L).c_str(), vstr(in, L).c_str(), vstr(nr, L).c_str(), vstr(g, L).c_str());
		else if (want && (want > 0 ? !isN : !isM))
			c.failk(key("faceforward", LL, icls), "faceforward(N=%s,I=%s,Nref=%s)=%s, dot(Nref,I)=%.6Lg so %s is documented", vstr(n, L).c_str(), vstr(in, L).c_str(), vstr(nr, L).c_str(), vstr(g, L).c_str(), d, want > 0 ? "N" : "-N");
	}
}
template <class T> static void faceforwardp(pbt::Ctx& c) { DISPATCH_L(faceforward_L) }
REG2(faceforwardp, "faceforward", 2000000, 100000000,
     "N non-zero, (I,Nref) in every pair relation incl. exactly orthogonal small-integer pairs (dot = 0 computed exactly) and, 1 in 16, a zero I or Nref, L=1..4 + scalar overload, magnitudes 2^-10..2^10; result must equal N or -N "
     "in every component, N iff dot(Nref,I) < 0; non-trivial = the side is decided (|dot| above the rounding bound of the float dot, or exact integer arithmetic incl. dot = 0)");

// =============================================================================================
// reflect: I - 2 dot(N,I) N for any N; for unit N additionally length-preserving and an involution.
//   |err_i| <= u (|I_i| + 2 (L+2) |N_i| sum|N_j I_j|);  with |N|^2 = 1 + delta (delta measured in long double) the exact formula
//   gives |R|^2 = |I|^2 + 4 d^2 delta and reflect(R,N) = I + 4 d delta N, which is what "unit N" means after rounding N to T.
template <class T> static void reflect_tol(const R* ri, const R* rn, int L, R* tol) {
	R S = adot(rn, ri, L);
	for (int i = 0; i < 4; ++i) tol[i] = i < L ? 8 * U<T>() * (rabs(ri[i]) + 2 * (L + 2) * rabs(rn[i]) * S) + TINY<T>() : 0;
}
template <class T, int L> static void reflect_L(pbt::Ctx& c) {
	T in[4], n[4];
	bool unit = c.draw(3) != 0;
	int rel = gen_pair<T>(c, L, n, in, 6);
	if (unit) make_unit(n, L);
	c.cls(REL_NAME[rel]); c.cls(unit ? "N unit" : "N arbitrary length");
	if (c.verbose) c.logf("L=%d I=%s N=%s (%s, %s)", L, vstr(in, L).c_str(), vstr(n, L).c_str(), REL_KEY[rel], unit ? "unit N" : "non-unit N");
	R ri[4], rn[4], tol[4]; lift(in, ri); lift(n, rn); reflect_tol<T>(ri, rn, L, tol);
	R d = dot(rn, ri, L);
	if (d != 0 && (L == 1 || (distinct_mags(n, L) && nonzeros(in, L) >= 2))) c.nontrivial();
	if (d == 0) c.cls("dot(N,I)=0");
	T g[4]; X<T, L>(glm::reflect(G<T, L>(in), G<T, L>(n)), g);
	R rg[4]; lift(g, rg);
	for (int i = 0; i < L; ++i) {
		R want = ri[i] - 2 * d * rn[i];
		if (!within(c, "reflect component err/tol", rabs(rg[i] - want), tol[i]))
			c.failk(key("reflect", L, "formula"), "reflect(I=%s,N=%s)[%d]=%.17g, I-2dot(N,I)N = %.17Lg", vstr(in, L).c_str(), vstr(n, L).c_str(), i, (double)g[i], want);
	}
	if (L == 1) {
		T gs = glm::reflect(in[0], n[0]);
		R want = ri[0] - 2 * d * rn[0];
		if (!within(c, "reflect scalar err/tol", rabs((R)gs - want), tol[0]))
			c.failk(key("reflect", 0, "formula"), "reflect(I=%.17g,N=%.17g)=%.17g, I-2(N*I)N = %.17Lg", (double)in[0], (double)n[0], (double)gs, want);
	}
	if (unit) {
		R delta = norm2(rn, L) - 1, li = norm(ri, L), tn = norm(tol, L);
		R tl = tn + 8 * 4 * d * d * rabs(delta) / li;
		if (!within(c, "reflect length err/tol", rabs(norm(rg, L) - li), tl))
			c.failk(key("reflect", L, "length-preserving"), "|reflect(I=%s,N=%s)|=%.17Lg but |I|=%.17Lg (unit N, |N|^2-1=%.3Lg)", vstr(in, L).c_str(), vstr(n, L).c_str(), norm(rg, L), li, delta);
		T g2[4]; X<T, L>(glm::reflect(G<T, L>(g), G<T, L>(n)), g2);
		R rg2[4], tol2[4], dv[4]; lift(g2, rg2); reflect_tol<T>(rg, rn, L, tol2); sub(rg2, ri, dv, L);
		R ti = 2 * tn + norm(tol2, L) + 8 * 4 * rabs(d * delta) * norm(rn, L);
		if (!within(c, "reflect involution err/tol", norm(dv, L), ti))
			c.failk(key("reflect", L, "involution"), "reflect(reflect(I,N),N)=%s differs from I=%s by %.6Lg (bound %.6Lg), N=%s", vstr(g2, L).c_str(), vstr(in, L).c_str(), norm(dv, L), ti, vstr(n, L).c_str());
	}
}
template <class T> static void reflectp(pbt::Ctx& c) { DISPATCH_L(reflect_L) }
REG2(reflectp, "reflect", 2000000, 100000000,
     "I non-zero and N (two thirds: rounded to unit length, else arbitrary length) in every pair relation, L=1..4 + scalar overload, magnitudes 2^-6..2^6; components against I-2dot(N,I)N, and for unit N "
     "|R| = |I| and reflect(R,N) = I; non-trivial = dot(N,I) != 0, N with pairwise distinct non-zero |components|, I with at least two non-zero components");

// =============================================================================================
// refract (GLSL 4.20 8.5, referenced by the doc comment): k = 1 - eta^2 (1 - dot(N,I)^2); k < 0: zero vector; else eta I - (eta dot(N,I) + sqrt(k)) N.
//   err_k <= u [eta^2 (2 L |d| S + d^2 + 3|1-d^2|) + |k|]  (S = sum|N_j I_j|). Classes: k < -8 err_k: total internal reflection, every
//   component must be exactly 0; k > 8 err_k: formula within its bound (+ Snell checks for unit I,N); in between: either
//   (the float k may have the other sign), except eta = 1 with exactly orthogonal small-integer I,N where every step is exact and k = 0 exactly,
//   so the documented branch is the formula (k < 0 is false) and the result is I.
template <class T, int L> static void refract_L(pbt::Ctx& c) {
	T in[4], n[4]; T eta;
	const R u = U<T>();
	int gc = (int)c.draw(L == 1 ? 4 : 8);  // L == 1: unit inputs give k = 1 always, so prefer non-unit inputs
	bool unit = true;
	int rel;
	const char* gname;
	if (L == 1 ? gc != 0 : gc == 7) {  // non-unit inputs: formula / TIR rule only
		unit = false; gname = "gen:non-unit I,N";
		rel = gen_unit_pair<T>(c, L, in, n);
		T si = (T)c.uniform(0.25, 1.5), sn = (T)c.uniform(0.5, 1.5);
		for (int i = 0; i < L; ++i) { in[i] *= si; n[i] *= sn; }
		eta = c.coin() ? (T)c.loguniform(0.1, 10.0) : (T)c.uniform(0.9, 3.0);
		if (c.draw(4) == 0) {  // eta within a few ulps of the critical value of these (non-unit) inputs
			R ri[4], rn[4]; lift(in, ri); lift(n, rn);
			R d0 = dot(rn, ri, L), q0 = 1 - d0 * d0;
			if (q0 > 0) { T e0 = (T)(1 / sqrtl(q0)); if (fp::is_finite(e0) && e0 > 0) { eta = fp::from_ordered<T>(fp::ordered(e0) + (int)c.range(-4, 4)); gname = "gen:non-unit critical angle"; } }
		}
	} else if (gc == 6) {  // k = 0 exactly: eta = 1, exactly orthogonal small-integer vectors (not unit unless axis-aligned)
		unit = false; gname = "gen:k=0 exactly";
		for (int i = 0; i < 4; ++i) in[i] = n[i] = 0;
		if (L == 1) { in[0] = 0; n[0] = (T)c.range(1, 4); }  // d = 0 needs I = 0 in one dimension
		else {
			for (int i = 0; i < L; ++i) in[i] = (T)c.range(-4, 4);
			if (is_zero(in, L)) in[0] = 1;
			int i = (int)c.draw(L), j = (i + 1 + (int)c.draw(L - 1)) % L;
			n[i] = -in[j]; n[j] = in[i];
			if (is_zero(n, L)) n[i] = 1;
		}
		rel = REL_ORTHO; eta = 1;
	} else {
		rel = gen_unit_pair<T>(c, L, in, n);
		R ri[4], rn[4]; lift(in, ri); lift(n, rn);
		R d0 = dot(rn, ri, L), s2 = 1 - d0 * d0;  // sin^2 of the incidence angle
		if (gc <= 2 || s2 <= 0) { gname = "gen:unit random eta"; static const double E[] = {1.0, 0.5, 2.0, 1.5, 0.75, 1.0 / 1.33, 1.33}; eta = c.draw(4) == 0 ? (T)E[c.draw(7)] : (T)c.loguniform(0.1, 10.0); }
		else if (gc == 3) { gname = "gen:unit TIR"; eta = (T)((double)(1 / sqrtl(s2)) * c.loguniform(1.0001, 3.0)); }
		else if (gc == 4) { gname = "gen:unit just-transmitted"; eta = (T)((double)(1 / sqrtl(s2)) / c.loguniform(1.0001, 3.0)); }
		else { gname = "gen:unit critical angle"; T e0 = (T)(1 / sqrtl(s2)); int k = (int)c.range(-40, 40); eta = k * k <= 16 ? fp::from_ordered<T>(fp::ordered(e0) + k) : (T)((double)e0 * (1 + (k < 0 ? -1 : 1) * std::ldexp(1.0, -(int)c.range(8, 30)))); }
		if (!(eta > 0) || !fp::is_finite(eta)) eta = 1;
	}
	c.cls(gname); c.cls(REL_NAME[rel]);
	if (c.verbose) c.logf("L=%d I=%s N=%s eta=%.17g (%s, %s)", L, vstr(in, L).c_str(), vstr(n, L).c_str(), (double)eta, gname, REL_KEY[rel]);
	R ri[4], rn[4]; lift(in, ri); lift(n, rn);
	const R e = (R)eta, d = dot(rn, ri, L), S = adot(rn, ri, L), q = 1 - d * d, k = 1 - e * e * q;
	const R errk = u * (e * e * (2 * L * rabs(d) * S + d * d + 3 * rabs(q)) + rabs(k)), band = 8 * errk;
	bool exact0 = (eta == 1 && d == 0 && all_small_int(in, L) && all_small_int(n, L));
	int cls;  // 0 TIR, 1 transmitted, 2 boundary, 3 exact k=0
	if (exact0) cls = 3; else if (k < -band) cls = 0; else if (k > band) cls = 1; else cls = 2;
	static const char* const CN[] = {"k<0 total internal reflection", "k>0 transmitted", "k within rounding of 0 (either accepted)", "k=0 exactly (formula branch)"};
	static const char* const CK[] = {"tir", "transmitted", "critical-angle", "k=0-exact"};
	c.cls(CN[cls]);
	if (cls == 0 && k >= -1) c.cls("TIR with -1<=k<0");
	if (cls != 2 && (L == 1 || nonzeros(n, L) >= 2)) c.nontrivial();
	const R sk = k > 0 ? sqrtl(k) : 0, cc = e * d + sk, ca = e * rabs(d) + sk;
	R want[4], tol[4];
	for (int i = 0; i < 4; ++i) {
		want[i] = i < L ? e * ri[i] - cc * rn[i] : 0;
		R sqerr = cls == 2 ? sqrtl(rabs(k) + band) : (cls == 3 ? 0 : errk / (sk > 0 ? sk : 1));
		tol[i] = i < L ? 8 * (2 * u * e * rabs(ri[i]) + rabs(rn[i]) * (u * (e * L * S + 4 * ca) + sqerr)) + TINY<T>() : 0;
	}
	for (int pass = 0; pass < (L == 1 ? 2 : 1); ++pass) {
		T g[4] = {0, 0, 0, 0};
		if (pass == 0) X<T, L>(glm::refract(G<T, L>(in), G<T, L>(n), eta), g);
		else g[0] = glm::refract(in[0], n[0], eta);
		const int LL = pass ? 0 : L;
		R rg[4]; lift(g, rg);
		bool zero = is_zero(g, L);
		if (cls == 0) {
			if (!zero) c.failk(key("refract", LL, "tir"), "refract(I=%s,N=%s,eta=%.9g)=%s, k=%.6Lg<0 (total internal reflection): the zero vector is documented", vstr(in, L).c_str(), vstr(n, L).c_str(), (double)eta, vstr(g, L).c_str(), k);
			else for (int i = 0; i < L; ++i) if (fp::sign_bit(g[i])) { c.cls("zero-sign-differs(counted)"); break; }
			continue;
		}
		if (cls == 2 && zero) { c.cls("critical angle: zero vector returned"); continue; }
		bool anynan = false; for (int i = 0; i < L; ++i) anynan = anynan || fp::is_nan(g[i]);
		if (cls == 2 && anynan) {  // either branch is acceptable here, NaN is neither (own key: the float k was negative and the result is not the zero vector)
			c.failk(key("refract", LL, "critical-angle-nan"), "refract(I=%s,N=%s,eta=%.9g)=%s, k=%.6Lg is within rounding of 0: the zero vector or eta*I-(eta*d+sqrt(k))N is documented, not NaN", vstr(in, L).c_str(), vstr(n, L).c_str(), (double)eta, vstr(g, L).c_str(), k);
			continue;
		}
		bool ok = true;
		for (int i = 0; i < L; ++i) {
			if (!within(c, cls == 2 ? "refract critical-angle err/tol" : "refract component err/tol", rabs(rg[i] - want[i]), tol[i])) {
				ok = false;
				c.failk(key("refract", LL, CK[cls]), "refract(I=%s,N=%s,eta=%.9g)[%d]=%.17g, eta*I-(eta*d+sqrt(k))N = %.17Lg (d=%.6Lg k=%.6Lg)", vstr(in, L).c_str(), vstr(n, L).c_str(), (double)eta, i, (double)g[i], want[i], d, k);
			}
		}
		if (!ok || cls != 1 || !unit) continue;
		// Snell's law on GLM's result, evaluated in long double (unit I and N up to their rounding, measured exactly)
		const R nn = norm2(rn, L), dN = rabs(nn - 1), dI = rabs(norm2(ri, L) - 1), tn = norm(tol, L);
		R nr = dot(rn, rg, L);
		if (!within(c, "refract cos(theta_t) err/tol", rabs(nr + sk), tn * sqrtl(nn) + 8 * ca * dN + TINY<T>()))
			c.failk(key("refract", LL, "snell-cosine"), "refract(I=%s,N=%s,eta=%.9g): dot(N,R)=%.17Lg, expected -sqrt(1-eta^2 sin^2)= %.17Lg", vstr(in, L).c_str(), vstr(n, L).c_str(), (double)eta, nr, -sk);
		R rp[4], ip[4]; axpy(-nr / nn, rn, rg, rp, L); axpy(-d / nn, rn, ri, ip, L);   // tangential parts
		R st = norm(rp, L) / norm(rg, L), si = norm(ip, L) / norm(ri, L);
		R ts = 2 * tn + 2 * e * si * (tn + e * e * dI + ca * ca * dN + dI) + TINY<T>();
		if (!within(c, "refract Snell sine err/tol", rabs(st - e * si), ts))
			c.failk(key("refract", LL, "snell-sine"), "refract(I=%s,N=%s,eta=%.9g): sin(theta_t)=%.17Lg but eta*sin(theta_i)=%.17Lg", vstr(in, L).c_str(), vstr(n, L).c_str(), (double)eta, st, e * si);
		if (L >= 3) {  // coplanar with I and N: nothing left after removing the components along N and along the tangential part of I
			R res[4]; R ipn = norm(ip, L);
			if (ipn > 0) axpy(-dot(rp, ip, L) / (ipn * ipn), ip, rp, res, L); else for (int i = 0; i < 4; ++i) res[i] = rp[i];
			if (!within(c, "refract coplanarity err/tol", norm(res, L), 2 * tn + TINY<T>()))
				c.failk(key("refract", LL, "coplanar"), "refract(I=%s,N=%s,eta=%.9g)=%s leaves the plane of I and N by %.6Lg", vstr(in, L).c_str(), vstr(n, L).c_str(), (double)eta, vstr(g, L).c_str(), norm(res, L));
		}
	}
}
template <class T> static void refractp(pbt::Ctx& c) { DISPATCH_L(refract_L) }
REG2(refractp, "refract", 3000000, 150000000,
     "unit I,N (rounded to T) in every pair relation with eta log-uniform in (0.1,10) / table values / eta placed above, below and within ulps of the critical 1/sin(theta_i); non-unit I,N; "
     "eta = 1 with exactly orthogonal integer vectors (k = 0 exactly); L=1..4 + scalar overload; zero vector exactly when k < 0 by more than its rounding bound, formula + Snell (cosine, sine, coplanarity) when k > 0 by margin; "
     "non-trivial = the branch is decided and N has at least two non-zero components (L=1: decided)");

int main(int argc, char** argv) { return pbt::pbt_main(argc, argv, "C12"); }
