// C17 — fixed body of every generated constructor shard (not compiled on its own: gen/ctors.py writes
// build/C17/gen-<hash>/ctor_*_<n>.cpp, each of which includes this file and then lists its table rows). One row = one
// constructor signature:
//     C17_CTOR(id, kind, "ctor/vec4<int>(vec2<float>,float,vec1<double>)", mode, SC, SR, destination type, argument types...)
// Whether GLM offers the signature is decided by std::is_constructible (absent = counted). The oracle is the signature:
// the arguments are filled scalar by scalar, left to right, each scalar is converted with static_cast<T> (the C++
// conversion itself, no GLM code) and the placement rule `mode` (refc17.hpp) says where it must land.
#include "ref/refc17.hpp"
#include <glm/glm.hpp>
#include <glm/detail/type_quat.hpp>
#include <glm/ext/quaternion_float.hpp>
#include <glm/ext/quaternion_double.hpp>
#include <glm/ext/vector_bool1.hpp>
#include <glm/ext/vector_int1.hpp>
#include <glm/ext/vector_uint1.hpp>
#include <glm/ext/vector_float1.hpp>
#include <glm/ext/vector_double1.hpp>
#include <glm/ext/scalar_int_sized.hpp>
#include <glm/ext/scalar_uint_sized.hpp>

#ifdef C17_EXPECT_SIMD
static_assert(GLM_CONFIG_SIMD == GLM_ENABLE && GLM_CONFIG_ALIGNED_GENTYPES == GLM_ENABLE, "this stage was configured for the SIMD specialisations of aligned types");
#endif

namespace c17c {

// ---- shape of an argument / destination type -----------------------------------------------------------------------------
template <class A, class = void> struct Shape;
template <class A> struct Shape<A, typename std::enable_if<std::is_arithmetic<A>::value>::type> {
	typedef A elem;
	enum { count = 1, rows = 1 };
	static A& at(A& a, int) { return a; }
	static const A& at(const A& a, int) { return a; }
};
template <glm::length_t L, class U, glm::qualifier P> struct Shape<glm::vec<L, U, P>, void> {
	typedef U elem;
	enum { count = L, rows = L };
	static U& at(glm::vec<L, U, P>& a, int k) { return reinterpret_cast<U*>(&a)[k]; }
	static const U& at(const glm::vec<L, U, P>& a, int k) { return reinterpret_cast<const U*>(&a)[k]; }
};
template <glm::length_t C, glm::length_t R, class U, glm::qualifier P> struct Shape<glm::mat<C, R, U, P>, void> {
	typedef U elem;
	enum { count = C * R, rows = R };
	// column-major: scalar k is row k % R of column k / R (columns may be padded: address through the column object)
	static U& at(glm::mat<C, R, U, P>& a, int k) { return reinterpret_cast<U*>(&a[k / R])[k % R]; }
	static const U& at(const glm::mat<C, R, U, P>& a, int k) { return reinterpret_cast<const U*>(&a[k / R])[k % R]; }
};
template <class U, glm::qualifier P> struct Shape<glm::qua<U, P>, void> {
	typedef U elem;
	enum { count = 4, rows = 4 };
	// by name, in the order (w, x, y, z), whatever the storage order of the configuration
	static U& at(glm::qua<U, P>& a, int k) { return k == 0 ? a.w : k == 1 ? a.x : k == 2 ? a.y : a.z; }
	static const U& at(const glm::qua<U, P>& a, int k) { return k == 0 ? a.w : k == 1 ? a.x : k == 2 ? a.y : a.z; }
};

// builds one argument: every scalar slot gets the next source value; its static_cast<T> image is appended to the flattening
template <class T, class A> static A make(c17::Flat<T>& fl) {
	typedef typename Shape<A>::elem U;
	A a;
	std::memset(static_cast<void*>(&a), 0x7b, sizeof(A));
	for (int k = 0; k < (int)Shape<A>::count; ++k) {
		U val = c17::src_value<U>(fl.fill, fl.j++, c17::dest_class<T>::value);
		Shape<A>::at(a, k) = val;
		if (fl.n < 16) fl.v[fl.n] = static_cast<T>(val);
		++fl.n;
	}
	return a;
}

template <class D> struct Built {
	D d;
	template <class... X> Built(const X&... x) : d(x...) {}
};

template <int MODE, int SC, int SR, class D> static void finish(pbt::Ctx& c, const c17::Entry& e, const D& d, const c17::Flat<typename Shape<D>::elem>& fl, bool bool_involved) {
	typedef typename Shape<D>::elem T;
	const int count = Shape<D>::count;
	T exp[16], got[16];
	if (fl.n > 16 || !c17::expected_components(exp, count, (int)Shape<D>::rows, MODE, SC, SR, fl)) {
		c.failk(std::string("harness/arity/") + e.name, "generator bug: %d scalars do not fit placement mode %d of a %d-component destination", fl.n, MODE, count);
		return;
	}
	for (int k = 0; k < count; ++k) got[k] = Shape<D>::at(d, k);
	if (MODE == c17::M_SHAPE) c17::classify_ctor(c, fl.v, fl.n, c17::M_SEQ, bool_involved);
	else c17::classify_ctor(c, exp, count, MODE, bool_involved);
	c.logf("%s, filling %u: argument scalars as T %s -> expected %s", e.name, fl.fill, c17::show(fl.v, fl.n).c_str(), c17::show(exp, count).c_str());
	for (int k = 0; k < count; ++k) if (!c17::same(got[k], exp[k])) {
		c.failk(e.name, "argument scalars (converted, left to right) %s: constructed %s, expected %s", c17::show(fl.v, fl.n).c_str(), c17::show(got, count).c_str(), c17::show(exp, count).c_str());
		return;
	}
}

template <class A> struct is_bool_elem { static const bool value = std::is_same<typename Shape<A>::elem, bool>::value; };

template <int MODE, int SC, int SR, class D, class... A> static void run_ctor(pbt::Ctx& c, const c17::Entry& e, unsigned f) {
	typedef typename Shape<D>::elem T;
	if constexpr (std::is_constructible<D, const A&...>::value) {
		c17::Flat<T> fl(f);
		Built<D> b{make<T, A>(fl)...};  // braced list: arguments are built strictly left to right
		finish<MODE, SC, SR, D>(c, e, b.d, fl, (is_bool_elem<A>::value || ...) || std::is_same<T, bool>::value);
	} else {
		c17::absent(c, e);
	}
}

// qua<T,Q>::wxyz(w, x, y, z): a named factory, not a constructor; always (w,x,y,z)
template <class D> static void run_wxyz(pbt::Ctx& c, const c17::Entry& e, unsigned f) {
	typedef typename Shape<D>::elem T;
	c17::Flat<T> fl(f);
	T w = make<T, T>(fl), x = make<T, T>(fl), y = make<T, T>(fl), z = make<T, T>(fl);
	D d = D::wxyz(w, x, y, z);
	finish<c17::M_SEQ, 0, 0, D>(c, e, d, fl, false);
}

}  // namespace c17c

// id, kind, name, placement mode, source shape (matrix shape conversions, else 0,0), destination type, argument types...
#define C17_CTOR(ID, KIND, NAME, MODE, SC, SR, ...)                                                                                      \
	static void c17_e##ID(pbt::Ctx& c, const c17::Entry& e, unsigned f) { c17c::run_ctor<MODE, SC, SR, __VA_ARGS__>(c, e, f); }          \
	static c17::Reg c17_r##ID(KIND, NAME, &c17_e##ID);
#define C17_WXYZ(ID, KIND, NAME, ...)                                                                                  \
	static void c17_e##ID(pbt::Ctx& c, const c17::Entry& e, unsigned f) { c17c::run_wxyz<__VA_ARGS__>(c, e, f); }      \
	static c17::Reg c17_r##ID(KIND, NAME, &c17_e##ID);
#define C17_UNINST(ID, KIND, NAME, NOTE) static c17::Reg c17_r##ID(KIND, NAME, &c17::run_uninstantiable, NOTE);
