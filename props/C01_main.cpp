// C01 — main() and the `instantiation` target: every (operator x shape x L x element type) and (function x element type)
// signature of the overload matrix was compiled by the -fsyntax-only pre-pass (gen/c01_gen.py); a signature whose body does
// not compile is a failure `uninstantiable/<signature>` here and is excluded from the runnable harness files by
// `if constexpr (Have<...>::v)`. The set of uninstantiable signatures is part of the oracle: a new one is a violation.
#include "fp.hpp"
#include "ref/c01_support.hpp"
#include "c01_have.hpp"

struct InstSig { const char* sig; int have; const char* err; };
static const InstSig SIGS[] = {
#define X(s, h, e) {s, h, e},
	C01_INST_LIST(X)
#undef X
};
static void prop_inst(pbt::Ctx& c) {
	const int N = sizeof(SIGS) / sizeof(SIGS[0]);
	const InstSig& s = SIGS[c.draw(N)];
	c.logf("instantiate %s (every qualifier of the tier): %s", s.sig, s.have ? "compiles" : "hard error");
	c.nontrivial();
	if (s.have) c.cls("compiles"); else c.cls("does-not-compile");
	if (!s.have) c.failk(std::string("uninstantiable/") + s.sig, "%s is declared (and documented as component-wise / broadcasting) but its body does not compile: %s", s.sig, s.err);
}
PBT_SWEEP("instantiation", prop_inst, sizeof(SIGS) / sizeof(SIGS[0]), 1, 1,
          "every signature of the overload matrix (operator x overload shape x L x element type; function x element type; gtx/extended_min_max overloads), each with every qualifier of the tier, compiled with -fsyntax-only by the pre-pass; all are non-trivial");

int main(int argc, char** argv) { return pbt::pbt_main(argc, argv, "C01"); }
