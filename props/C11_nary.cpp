// C11 (part 2 of 3) — n-ary common functions, float and double, scalar and vec4 overloads.
//  * selection family (min max clamp step mix(bool) openBounded closeBounded; fmin fmax fclamp with NaN): complete
//    enumeration of lattice^4 (the special-value lattice of the property statement) + random values with equal /
//    adjacent / reversed arguments; oracle = the definitional sentence of the doc comment, compared as VALUES
//    (a +0/-0 disagreement is counted, not failed).
//  * arithmetic family (mix lerp smoothstep fma mod fmod ldexp frexp epsilonEqual/NotEqual): structured + random
//    values inside the documented domain; oracle = the documented formula evaluated in __float128 with the analytic
//    rounding bound of that formula x8 (err/tol reported), exact integer long division for fmod, exact scaling for ldexp.
// No (scalar) failure key depends on GLM's answer; vec4 lanes carry rotated arguments so that a lane mix-up shows.
#include "fp.hpp"
#include "ref/refcommon.hpp"
#include "ref/c11_support.hpp"
#include <glm/glm.hpp>
#include <glm/ext/scalar_common.hpp>
#include <glm/ext/vector_common.hpp>
#include <glm/gtc/epsilon.hpp>
#include <glm/gtx/common.hpp>
#include <glm/gtx/compatibility.hpp>

using namespace fp;
typedef __float128 Q;
static inline Q qabs(Q v) { return v < 0 ? -v : v; }
static inline Q qmax(Q a, Q b) { return a < b ? b : a; }
template <class T> static inline Q qulp(Q m) { return (Q)fp::ulp_at<T>((long double)qabs(m)); }
template <class T> static inline Q qdenorm() { return (Q)std::numeric_limits<T>::denorm_min(); }
template <class T> static inline Q qeps() { return (Q)std::numeric_limits<T>::epsilon(); }

// err/tol metrics are kept finite (the engine prints them into JSON)
static inline void met(pbt::Ctx& c, const char* name, double v) { if (v == v) c.metric(name, v < 1e300 ? v : 1e300); }

// VALUE comparison; counts a pure sign-of-zero difference
template <class T> static inline bool veq(pbt::Ctx& c, T got, T want) {
	if (!same_value(got, want)) return false;
	if (!refc::is_nan(got) && refc::sign_bit(got) != refc::sign_bit(want)) c.cls("zero-sign-diff");
	return true;
}
static const char* rel3(int lt, int eq) { return lt ? "lt" : (eq ? "eq" : "gt"); }

// ------------------------------------------------------------------------------------------------------------
// selection family on non-NaN values
template <class T> static void check_select(pbt::Ctx& c, const T v[4]) {
	typedef glm::vec<4, T> V; typedef glm::vec<4, bool> B;
	const T a = v[0], b = v[1], d = v[2], e = v[3];
	if (c.verbose) c.logf("%s a=%a b=%a c=%a d=%a", TN<T>::n(), (double)a, (double)b, (double)d, (double)e);
	if (a != b && b != d && a != d && e != a && e != b && e != d) { c.nontrivial(); c.cls("all-distinct"); } else c.cls("some-equal");
	if ((refc::is_zero(a) && refc::is_zero(b) && refc::sign_bit(a) != refc::sign_bit(b))) c.cls("signed-zero-pair");
	const char* r2 = rel3(a < b, a == b);
	T got, want;
	// min / max: "Returns y if y < x; otherwise, it returns x" / "Returns y if x < y; otherwise, it returns x"
	got = glm::min(a, b); want = refc::min2(a, b);
	if (!veq(c, got, want)) FAILK(c, "min", T, r2, "min(%a,%a)=%a, expected %a", (double)a, (double)b, (double)got, (double)want);
	got = glm::max(a, b); want = refc::max2(a, b);
	if (!veq(c, got, want)) FAILK(c, "max", T, r2, "max(%a,%a)=%a, expected %a", (double)a, (double)b, (double)got, (double)want);
	// 3 / 4 operands: the smallest / largest value
	T mn3 = a, mx3 = a; int in3 = 0, ix3 = 0;
	if (b < mn3) { mn3 = b; in3 = 1; } if (d < mn3) { mn3 = d; in3 = 2; }
	if (b > mx3) { mx3 = b; ix3 = 1; } if (d > mx3) { mx3 = d; ix3 = 2; }
	T mn4 = mn3, mx4 = mx3; int in4 = in3, ix4 = ix3;
	if (e < mn4) { mn4 = e; in4 = 3; } if (e > mx4) { mx4 = e; ix4 = 3; }
	static const char* AT[4] = {"extreme-at-a", "extreme-at-b", "extreme-at-c", "extreme-at-d"};
	got = glm::min(a, b, d); if (!veq(c, got, mn3)) FAILK(c, "min3", T, AT[in3], "min(%a,%a,%a)=%a, expected %a", (double)a, (double)b, (double)d, (double)got, (double)mn3);
	got = glm::max(a, b, d); if (!veq(c, got, mx3)) FAILK(c, "max3", T, AT[ix3], "max(%a,%a,%a)=%a, expected %a", (double)a, (double)b, (double)d, (double)got, (double)mx3);
	got = glm::min(a, b, d, e); if (!veq(c, got, mn4)) FAILK(c, "min4", T, AT[in4], "min(%a,%a,%a,%a)=%a, expected %a", (double)a, (double)b, (double)d, (double)e, (double)got, (double)mn4);
	got = glm::max(a, b, d, e); if (!veq(c, got, mx4)) FAILK(c, "max4", T, AT[ix4], "max(%a,%a,%a,%a)=%a, expected %a", (double)a, (double)b, (double)d, (double)e, (double)got, (double)mx4);
	// clamp(x,lo,hi) = min(max(x,lo),hi), literally (reversed bounds included: the doc sentence is the formula)
	auto clampref = [](T x, T lo, T hi) { return refc::min2(refc::max2(x, lo), hi); };
	auto clampcls = [](T x, T lo, T hi) { return lo > hi ? "lo>hi" : (x < lo ? "x<lo" : (x > hi ? "x>hi" : ((x == lo || x == hi) ? "x-on-bound" : "inside"))); };
	got = glm::clamp(a, b, d); want = clampref(a, b, d);
	if (!veq(c, got, want)) FAILK(c, "clamp", T, clampcls(a, b, d), "clamp(%a,%a,%a)=%a, expected %a", (double)a, (double)b, (double)d, (double)got, (double)want);
	c.cls(clampcls(a, b, d));
	// step(edge,x): 0 if x < edge, else 1
	auto stepref = [](T edge, T x) { return x < edge ? T(0) : T(1); };
	auto stepcls = [](T edge, T x) { return x < edge ? "x<edge" : (x == edge ? "x==edge" : "x>edge"); };
	got = glm::step(a, b); want = stepref(a, b);
	if (!(got == want)) FAILK(c, "step", T, stepcls(a, b), "step(edge=%a,x=%a)=%a, expected %a", (double)a, (double)b, (double)got, (double)want);
	// mix with a boolean selector: a component of x or y, bit for bit
	got = glm::mix(a, b, true); if (!same_bits(got, b)) FAILK(c, "mix-bool", T, "true", "mix(%a,%a,true)=%a", (double)a, (double)b, (double)got);
	got = glm::mix(a, b, false); if (!same_bits(got, a)) FAILK(c, "mix-bool", T, "false", "mix(%a,%a,false)=%a", (double)a, (double)b, (double)got);

	// vec4 overloads: lane i sees (v[i], v[i+1], v[i+2], v[i+3])
	V x(v[0], v[1], v[2], v[3]), y(v[1], v[2], v[3], v[0]), z(v[2], v[3], v[0], v[1]), w(v[3], v[0], v[1], v[2]);
	V rmin2 = glm::min(x, y), rmax2 = glm::max(x, y), rmins = glm::min(x, b), rmaxs = glm::max(x, b), rmin3 = glm::min(x, y, z), rmax3 = glm::max(x, y, z), rmin4 = glm::min(x, y, z, w), rmax4 = glm::max(x, y, z, w);
	V rcl = glm::clamp(x, y, z), rcls = glm::clamp(x, b, d), rst = glm::step(y, x), rsts = glm::step(b, x);
	B sel(v[0] < v[1], v[1] < v[2], v[2] < v[3], v[3] < v[0]);
	V rmixb = glm::mix(x, y, sel), rmix1 = glm::mix(x, y, true), rmix0 = glm::mix(x, y, false);
	B rob = glm::openBounded(x, y, z), rcb = glm::closeBounded(x, y, z);
	for (int i = 0; i < 4; ++i) {
		const T p = x[i], q = y[i], r = z[i], s = w[i];
		const char* rr = rel3(p < q, p == q);
		if (!veq(c, rmin2[i], refc::min2(p, q))) FAILK(c, "min/vec4", T, rr, "lane %d: min(%a,%a)=%a", i, (double)p, (double)q, (double)rmin2[i]);
		if (!veq(c, rmax2[i], refc::max2(p, q))) FAILK(c, "max/vec4", T, rr, "lane %d: max(%a,%a)=%a", i, (double)p, (double)q, (double)rmax2[i]);
		if (!veq(c, rmins[i], refc::min2(p, b))) FAILK(c, "min/vec4-scalar", T, rel3(p < b, p == b), "lane %d: min(%a,%a)=%a", i, (double)p, (double)b, (double)rmins[i]);
		if (!veq(c, rmaxs[i], refc::max2(p, b))) FAILK(c, "max/vec4-scalar", T, rel3(p < b, p == b), "lane %d: max(%a,%a)=%a", i, (double)p, (double)b, (double)rmaxs[i]);
		T m3 = refc::min2(refc::min2(p, q), r), M3 = refc::max2(refc::max2(p, q), r);
		T m4 = refc::min2(m3, s), M4 = refc::max2(M3, s);
		if (!veq(c, rmin3[i], m3)) FAILK(c, "min3/vec4", T, "lane", "lane %d: min(%a,%a,%a)=%a", i, (double)p, (double)q, (double)r, (double)rmin3[i]);
		if (!veq(c, rmax3[i], M3)) FAILK(c, "max3/vec4", T, "lane", "lane %d: max(%a,%a,%a)=%a", i, (double)p, (double)q, (double)r, (double)rmax3[i]);
		if (!veq(c, rmin4[i], m4)) FAILK(c, "min4/vec4", T, "lane", "lane %d: min(%a,%a,%a,%a)=%a", i, (double)p, (double)q, (double)r, (double)s, (double)rmin4[i]);
		if (!veq(c, rmax4[i], M4)) FAILK(c, "max4/vec4", T, "lane", "lane %d: max(%a,%a,%a,%a)=%a", i, (double)p, (double)q, (double)r, (double)s, (double)rmax4[i]);
		if (!veq(c, rcl[i], clampref(p, q, r))) FAILK(c, "clamp/vec4", T, clampcls(p, q, r), "lane %d: clamp(%a,%a,%a)=%a", i, (double)p, (double)q, (double)r, (double)rcl[i]);
		if (!veq(c, rcls[i], clampref(p, b, d))) FAILK(c, "clamp/vec4-scalar", T, clampcls(p, b, d), "lane %d: clamp(%a,%a,%a)=%a", i, (double)p, (double)b, (double)d, (double)rcls[i]);
		if (!(rst[i] == stepref(q, p))) FAILK(c, "step/vec4", T, stepcls(q, p), "lane %d: step(edge=%a,x=%a)=%a", i, (double)q, (double)p, (double)rst[i]);
		if (!(rsts[i] == stepref(b, p))) FAILK(c, "step/vec4-scalar", T, stepcls(b, p), "lane %d: step(edge=%a,x=%a)=%a", i, (double)b, (double)p, (double)rsts[i]);
		if (!same_bits(rmixb[i], sel[i] ? q : p)) FAILK(c, "mix-bvec/vec4", T, sel[i] ? "true" : "false", "lane %d: mix(%a,%a,%d)=%a", i, (double)p, (double)q, (int)sel[i], (double)rmixb[i]);
		if (!same_bits(rmix1[i], q) || !same_bits(rmix0[i], p)) FAILK(c, "mix-bool/vec4", T, "lane", "lane %d: mix(%a,%a,true/false)=%a/%a", i, (double)p, (double)q, (double)rmix1[i], (double)rmix0[i]);
		if (rob[i] != (p > q && p < r)) FAILK(c, "openBounded/vec4", T, (p == q || p == r) ? "on-bound" : "off-bound", "lane %d: openBounded(%a,%a,%a)=%d", i, (double)p, (double)q, (double)r, (int)rob[i]);
		if (rcb[i] != (p >= q && p <= r)) FAILK(c, "closeBounded/vec4", T, (p == q || p == r) ? "on-bound" : "off-bound", "lane %d: closeBounded(%a,%a,%a)=%d", i, (double)p, (double)q, (double)r, (int)rcb[i]);
	}
}

// fmin / fmax / fclamp: NaN operands are ignored; NaN only if every operand is NaN
template <class T> static inline T rfmin(T a, T b) { return refc::is_nan(a) ? b : (refc::is_nan(b) ? a : refc::min2(a, b)); }
template <class T> static inline T rfmax(T a, T b) { return refc::is_nan(a) ? b : (refc::is_nan(b) ? a : refc::max2(a, b)); }
template <class T> static void check_fminmax(pbt::Ctx& c, const T v[4]) {
	typedef glm::vec<4, T> V;
	const T a = v[0], b = v[1], d = v[2], e = v[3];
	if (c.verbose) c.logf("%s a=%a b=%a c=%a d=%a", TN<T>::n(), (double)a, (double)b, (double)d, (double)e);
	int mask = 0; for (int i = 0; i < 4; ++i) if (refc::is_nan(v[i])) mask |= 1 << i;
	static const char* M[16] = {"nan:none", "nan:a", "nan:b", "nan:ab", "nan:c", "nan:ac", "nan:bc", "nan:abc", "nan:d", "nan:ad", "nan:bd", "nan:abd", "nan:cd", "nan:acd", "nan:bcd", "nan:abcd"};
	c.cls(M[mask]);
	if (mask != 0 && mask != 15 && a != b && b != d && a != d) c.nontrivial();  // a NaN must be skipped and the others told apart
	else if (mask == 0 && a != b && b != d && a != d && e != a && e != b && e != d) c.nontrivial();
	T got, want;
	got = glm::fmin(a, b); want = rfmin(a, b); if (!veq(c, got, want)) FAILK(c, "fmin2", T, M[mask & 3], "fmin(%a,%a)=%a, expected %a", (double)a, (double)b, (double)got, (double)want);
	got = glm::fmax(a, b); want = rfmax(a, b); if (!veq(c, got, want)) FAILK(c, "fmax2", T, M[mask & 3], "fmax(%a,%a)=%a, expected %a", (double)a, (double)b, (double)got, (double)want);
	got = glm::fmin(a, b, d); want = rfmin(rfmin(a, b), d); if (!veq(c, got, want)) FAILK(c, "fmin3", T, M[mask & 7], "fmin(%a,%a,%a)=%a, expected %a", (double)a, (double)b, (double)d, (double)got, (double)want);
	got = glm::fmax(a, b, d); want = rfmax(rfmax(a, b), d); if (!veq(c, got, want)) FAILK(c, "fmax3", T, M[mask & 7], "fmax(%a,%a,%a)=%a, expected %a", (double)a, (double)b, (double)d, (double)got, (double)want);
	got = glm::fmin(a, b, d, e); want = rfmin(rfmin(rfmin(a, b), d), e); if (!veq(c, got, want)) FAILK(c, "fmin4", T, M[mask], "fmin(%a,%a,%a,%a)=%a, expected %a", (double)a, (double)b, (double)d, (double)e, (double)got, (double)want);
	got = glm::fmax(a, b, d, e); want = rfmax(rfmax(rfmax(a, b), d), e); if (!veq(c, got, want)) FAILK(c, "fmax4", T, M[mask], "fmax(%a,%a,%a,%a)=%a, expected %a", (double)a, (double)b, (double)d, (double)e, (double)got, (double)want);
	// fclamp(x,lo,hi) = fmin(fmax(x,lo),hi)
	got = glm::fclamp(a, b, d); want = rfmin(rfmax(a, b), d); if (!veq(c, got, want)) FAILK(c, "fclamp", T, M[mask & 7], "fclamp(%a,%a,%a)=%a, expected %a", (double)a, (double)b, (double)d, (double)got, (double)want);

	V x(v[0], v[1], v[2], v[3]), y(v[1], v[2], v[3], v[0]), z(v[2], v[3], v[0], v[1]), w(v[3], v[0], v[1], v[2]);
	V n2 = glm::fmin(x, y), x2 = glm::fmax(x, y), ns = glm::fmin(x, b), xs = glm::fmax(x, b), n3 = glm::fmin(x, y, z), x3 = glm::fmax(x, y, z), n4 = glm::fmin(x, y, z, w), x4 = glm::fmax(x, y, z, w);
	V fc = glm::fclamp(x, y, z), fcs = glm::fclamp(x, b, d);
	for (int i = 0; i < 4; ++i) {
		const T p = x[i], q = y[i], r = z[i], s = w[i];
		int m = (refc::is_nan(p) ? 1 : 0) | (refc::is_nan(q) ? 2 : 0) | (refc::is_nan(r) ? 4 : 0) | (refc::is_nan(s) ? 8 : 0);
		if (!veq(c, n2[i], rfmin(p, q))) FAILK(c, "fmin2/vec4", T, M[m & 3], "lane %d: fmin(%a,%a)=%a", i, (double)p, (double)q, (double)n2[i]);
		if (!veq(c, x2[i], rfmax(p, q))) FAILK(c, "fmax2/vec4", T, M[m & 3], "lane %d: fmax(%a,%a)=%a", i, (double)p, (double)q, (double)x2[i]);
		int ms = (refc::is_nan(p) ? 1 : 0) | (refc::is_nan(b) ? 2 : 0) | (refc::is_nan(d) ? 4 : 0);
		if (!veq(c, ns[i], rfmin(p, b))) FAILK(c, "fmin2/vec4-scalar", T, M[ms & 3], "lane %d: fmin(%a,%a)=%a", i, (double)p, (double)b, (double)ns[i]);
		if (!veq(c, xs[i], rfmax(p, b))) FAILK(c, "fmax2/vec4-scalar", T, M[ms & 3], "lane %d: fmax(%a,%a)=%a", i, (double)p, (double)b, (double)xs[i]);
		if (!veq(c, n3[i], rfmin(rfmin(p, q), r))) FAILK(c, "fmin3/vec4", T, M[m & 7], "lane %d: fmin(%a,%a,%a)=%a", i, (double)p, (double)q, (double)r, (double)n3[i]);
		if (!veq(c, x3[i], rfmax(rfmax(p, q), r))) FAILK(c, "fmax3/vec4", T, M[m & 7], "lane %d: fmax(%a,%a,%a)=%a", i, (double)p, (double)q, (double)r, (double)x3[i]);
		if (!veq(c, n4[i], rfmin(rfmin(rfmin(p, q), r), s))) FAILK(c, "fmin4/vec4", T, M[m], "lane %d: fmin(%a,%a,%a,%a)=%a", i, (double)p, (double)q, (double)r, (double)s, (double)n4[i]);
		if (!veq(c, x4[i], rfmax(rfmax(rfmax(p, q), r), s))) FAILK(c, "fmax4/vec4", T, M[m], "lane %d: fmax(%a,%a,%a,%a)=%a", i, (double)p, (double)q, (double)r, (double)s, (double)x4[i]);
		if (!veq(c, fc[i], rfmin(rfmax(p, q), r))) FAILK(c, "fclamp/vec4", T, M[m & 7], "lane %d: fclamp(%a,%a,%a)=%a", i, (double)p, (double)q, (double)r, (double)fc[i]);
		if (!veq(c, fcs[i], rfmin(rfmax(p, b), d))) FAILK(c, "fclamp/vec4-scalar", T, M[ms], "lane %d: fclamp(%a,%a,%a)=%a", i, (double)p, (double)b, (double)d, (double)fcs[i]);
	}
}

// Signaling NaN operands are outside the documented domain (see random_case); what happens is only counted.
template <class T> static void observe_snan(pbt::Ctx& c, T other) {
	if (refc::is_nan(other)) return;
	T s = refc::frombits<T>(((typename FB<T>::U)refc::expmax<T>() << FB<T>::MANT) | 1);
	T r = glm::fmin(s, other);
	c.cls(refc::is_nan(r) ? "observed(not demanded): fmin(sNaN,x)=NaN" : "observed(not demanded): fmin(sNaN,x)=x");
}

// lattice^4, complete
template <class T> static void lattice_case(pbt::Ctx& c, bool with_nan, T v[4]) {
	const std::vector<T>& L = lattice<T>(with_nan);
	uint64_t n = L.size(), i = c.draw(n * n * n * n);
	for (int k = 0; k < 4; ++k) { v[k] = L[i % n]; i /= n; }
}
template <class T> static uint64_t lattice_domain(bool with_nan) { uint64_t n = lattice<T>(with_nan).size(); return n * n * n * n; }
// random 4-tuples: independent structured values, then some arguments made equal / adjacent to another one
template <class T> static void random_case(pbt::Ctx& c, bool with_nan, T v[4]) {
	for (int k = 0; k < 4; ++k) {
		v[k] = gen_struct<T>(c, with_nan);
		// quiet NaNs only: GLM forwards fmin/fmax to the C library, whose contract (C11 F.2.1) leaves signaling NaNs unspecified
		if (refc::is_nan(v[k])) v[k] = refc::frombits<T>(refc::bits(v[k]) | ((typename FB<T>::U)1 << (FB<T>::MANT - 1)));
	}
	for (int k = 1; k < 4; ++k) {
		uint64_t m = c.draw(8);
		if (m == 0) v[k] = v[c.draw(k)];
		else if (m == 1) { T o = v[c.draw(k)]; if (refc::is_finite(o)) v[k] = from_ordered<T>(ordered(o) + (c.coin() ? 1 : -1)); }
		else if (m == 2) { T o = v[c.draw(k)]; if (!refc::is_nan(o)) v[k] = -o; }
	}
}

#define SELECT_TARGETS(T, N) \
	static void lat_select_##N(pbt::Ctx& c) { T v[4]; lattice_case<T>(c, false, v); check_select<T>(c, v); } \
	PBT_SWEEP("lattice/select/" #N, lat_select_##N, lattice_domain<T>(false), 1, 1, "every 4-tuple of the non-NaN special-value lattice (+-0, +-min subnormal, +-max subnormal, +-min normal, +-(0.5-+ulp), ties, +-2^23, +-2^24, +-2^mant.., +-2^31, +-2^32, +-max, +-inf) through min max (2-4 operands) clamp step mix(bool) openBounded closeBounded, scalar and vec4; non-trivial = four pairwise different values"); \
	static void rnd_select_##N(pbt::Ctx& c) { T v[4]; random_case<T>(c, false, v); check_select<T>(c, v); } \
	PBT_RANDOM("random/select/" #N, rnd_select_##N, 2000000, 100000000, "structured + random non-NaN 4-tuples with equal, adjacent (+-1 ulp) and negated arguments; non-trivial = four pairwise different values"); \
	static void lat_fminmax_##N(pbt::Ctx& c) { T v[4]; lattice_case<T>(c, true, v); check_fminmax<T>(c, v); } \
	PBT_SWEEP("lattice/fminmax/" #N, lat_fminmax_##N, lattice_domain<T>(true), 1, 1, "every 4-tuple of the lattice including NaN through fmin fmax (2-4 operands) fclamp, scalar and vec4; non-trivial = some but not all operands NaN with distinct others, or four distinct numbers"); \
	static void rnd_fminmax_##N(pbt::Ctx& c) { T v[4]; random_case<T>(c, true, v); for (int k = 0; k < 4; ++k) if (c.draw(5) == 0) v[k] = std::numeric_limits<T>::quiet_NaN(); check_fminmax<T>(c, v); observe_snan<T>(c, v[0]); } \
	PBT_RANDOM("random/fminmax/" #N, rnd_fminmax_##N, 2000000, 100000000, "structured + random 4-tuples, each operand NaN with probability ~1/5; non-trivial as above");
SELECT_TARGETS(float, float)
SELECT_TARGETS(double, double)

// ------------------------------------------------------------------------------------------------------------
// arithmetic family
template <class T> static T gen_mod(pbt::Ctx& c) {  // moderate finite, occasionally a lattice-like exact value
	switch (c.draw(4)) {
	case 0: { static const double S[] = {0.0, 1.0, -1.0, 0.5, -0.5, 2.0, 3.0, -3.0, 0.25, 1.5, -2.5, 10.0, 0.1, -0.7, 100.0, 1024.0}; return (T)S[c.draw(16)]; }
	default: return gen_moderate<T>(c, 10, 10);
	}
}

template <class T> static void check_blend(pbt::Ctx& c) {
	typedef glm::vec<4, T> V;
	T x = gen_mod<T>(c), y = gen_mod<T>(c), a;
	switch (c.draw(6)) { case 0: a = T(0); break; case 1: a = T(1); break; case 2: a = T(0.5); break; case 3: a = (T)c.unit(); break; case 4: a = (T)c.uniform(-2.0, 3.0); break; default: a = gen_mod<T>(c); }
	if (c.verbose) c.logf("%s x=%a y=%a a=%a", TN<T>::n(), (double)x, (double)y, (double)a);
	const char* acls = a == T(0) ? "a=0" : (a == T(1) ? "a=1" : ((a > T(0) && a < T(1)) ? "0<a<1" : "a-outside-0..1"));
	c.cls(acls);
	if (x != y && a != T(0)) c.nontrivial();
	// mix = x*(1-a) + y*a. Rounding bound of the formula: 3u*(|x(1-a)|+|ya|) + u*|result| <= 2 eps * scale; x8.
	Q exact = (Q)x * ((Q)1 - (Q)a) + (Q)y * (Q)a;
	Q scale = qabs((Q)x * ((Q)1 - (Q)a)) + qabs((Q)y * (Q)a);
	Q tol = 16 * qeps<T>() * scale + 8 * qdenorm<T>();
	auto chk = [&](const char* fn, T got) {
		Q err = qabs((Q)got - exact);
		met(c, "mix err/tol", (double)(err / tol));
		if (!(err <= tol)) FAILK(c, fn, T, acls, "%s(%a,%a,%a)=%a, x*(1-a)+y*a=%.20Lg (err/tol %.3g)", fn, (double)x, (double)y, (double)a, (double)got, (long double)exact, (double)(err / tol));
	};
	chk("mix", glm::mix(x, y, a));
	chk("lerp", glm::lerp(x, y, a));
	if (a == T(0) && !(glm::mix(x, y, a) == x)) FAILK(c, "mix-endpoint", T, acls, "mix(%a,%a,0)=%a", (double)x, (double)y, (double)glm::mix(x, y, a));
	if (a == T(1) && !(glm::mix(x, y, a) == y)) FAILK(c, "mix-endpoint", T, acls, "mix(%a,%a,1)=%a", (double)x, (double)y, (double)glm::mix(x, y, a));
	{  // interpolant of the other precision: float data with a double weight is computed in double and rounded once
		typedef typename std::conditional<sizeof(T) == 4, double, float>::type U;
		U au = (U)a;
		Q ex = (Q)x * ((Q)1 - (Q)au) + (Q)y * (Q)au, sc = qabs((Q)x * ((Q)1 - (Q)au)) + qabs((Q)y * (Q)au);
		Q eu = qeps<float>();  // float data + double weight: one final rounding to float; double data + float weight: float arithmetic
		Q tl = 16 * eu * sc + 8 * qdenorm<float>();
		T got = glm::mix(x, y, au);
		Q err = qabs((Q)got - ex);
		met(c, "mix(mixed-type) err/tol", (double)(err / tl));
		if (!(err <= tl)) FAILK(c, "mix-mixed-interpolant", T, acls, "mix(%a,%a,(other precision)%a)=%a, expected %.20Lg", (double)x, (double)y, (double)au, (double)got, (long double)ex);
	}
	// vec4 overloads, lanes (x,y) (y,x) (x,x) (-x,y); scalar and per-lane interpolant
	V vx(x, y, x, -x), vy(y, x, x, y), va(a, T(1) - a, a, T(0.25));
	V r1 = glm::mix(vx, vy, a), r2 = glm::mix(vx, vy, va), r3 = glm::lerp(vx, vy, a), r4 = glm::lerp(vx, vy, va);
	for (int i = 0; i < 4; ++i) {
		Q e1 = (Q)vx[i] * ((Q)1 - (Q)a) + (Q)vy[i] * (Q)a, s1 = qabs((Q)vx[i] * ((Q)1 - (Q)a)) + qabs((Q)vy[i] * (Q)a), t1 = 16 * qeps<T>() * s1 + 8 * qdenorm<T>();
		Q e2 = (Q)vx[i] * ((Q)1 - (Q)va[i]) + (Q)vy[i] * (Q)va[i], s2 = qabs((Q)vx[i] * ((Q)1 - (Q)va[i])) + qabs((Q)vy[i] * (Q)va[i]), t2 = 16 * qeps<T>() * s2 + 8 * qdenorm<T>();
		met(c, "mix err/tol", (double)(qabs((Q)r1[i] - e1) / t1)); met(c, "mix err/tol", (double)(qabs((Q)r2[i] - e2) / t2));
		if (!(qabs((Q)r1[i] - e1) <= t1)) FAILK(c, "mix/vec4-scalar", T, acls, "lane %d: mix(%a,%a,%a)=%a", i, (double)vx[i], (double)vy[i], (double)a, (double)r1[i]);
		if (!(qabs((Q)r2[i] - e2) <= t2)) FAILK(c, "mix/vec4", T, "lane", "lane %d: mix(%a,%a,%a)=%a", i, (double)vx[i], (double)vy[i], (double)va[i], (double)r2[i]);
		if (!(qabs((Q)r3[i] - e1) <= t1)) FAILK(c, "lerp/vec4-scalar", T, acls, "lane %d: lerp(%a,%a,%a)=%a", i, (double)vx[i], (double)vy[i], (double)a, (double)r3[i]);
		if (!(qabs((Q)r4[i] - e2) <= t2)) FAILK(c, "lerp/vec4", T, "lane", "lane %d: lerp(%a,%a,%a)=%a", i, (double)vx[i], (double)vy[i], (double)va[i], (double)r4[i]);
	}
	// fma: a*b+c, fused or not: |err| <= ulp(ab)/2 + ulp(result)/2
	{
		T p = x, q = y, r = a;
		Q ex = (Q)p * (Q)q + (Q)r, tl = 8 * (qulp<T>((Q)p * (Q)q) + qulp<T>(ex)) + 8 * qdenorm<T>();
		T g1 = glm::fma(p, q, r); V g2 = glm::fma(V(p, q, r, p), V(q, r, p, p), V(r, p, q, q));
		Q err = qabs((Q)g1 - ex);
		met(c, "fma err/tol", (double)(err / tl));
		if (!(err <= tl)) FAILK(c, "fma", T, "moderate", "fma(%a,%a,%a)=%a, expected %.20Lg", (double)p, (double)q, (double)r, (double)g1, (long double)ex);
		T pp[4] = {p, q, r, p}, qq[4] = {q, r, p, p}, rr[4] = {r, p, q, q};
		for (int i = 0; i < 4; ++i) {
			Q e = (Q)pp[i] * (Q)qq[i] + (Q)rr[i], t = 8 * (qulp<T>((Q)pp[i] * (Q)qq[i]) + qulp<T>(e)) + 8 * qdenorm<T>();
			met(c, "fma err/tol", (double)(qabs((Q)g2[i] - e) / t));
			if (!(qabs((Q)g2[i] - e) <= t)) FAILK(c, "fma/vec4", T, "lane", "lane %d: fma(%a,%a,%a)=%a", i, (double)pp[i], (double)qq[i], (double)rr[i], (double)g2[i]);
		}
	}
}

template <class T> static void check_smoothstep(pbt::Ctx& c) {
	typedef glm::vec<4, T> V;
	T e0 = gen_mod<T>(c), e1 = gen_mod<T>(c);
	if (e0 == e1) { c.skip(); return; }             // "Results are undefined if edge0 >= edge1"
	if (e0 > e1) { T t = e0; e0 = e1; e1 = t; }
	T x;
	const char* k;
	switch (c.draw(8)) {
	case 0: x = e0; k = "x=edge0"; break;
	case 1: x = e1; k = "x=edge1"; break;
	case 2: x = from_ordered<T>(ordered(e0) - (typename bits_of<T>::S)c.range(1, 1000)); k = "x<edge0"; break;
	case 3: x = from_ordered<T>(ordered(e1) + (typename bits_of<T>::S)c.range(1, 1000)); k = "x>edge1"; break;
	case 4: x = c.coin() ? std::numeric_limits<T>::infinity() : -std::numeric_limits<T>::infinity(); k = "x=+-inf"; break;
	case 5: x = (T)((long double)e0 + ((long double)e1 - (long double)e0) * 0.5L); k = "inside"; break;
	default: x = (T)((long double)e0 + ((long double)e1 - (long double)e0) * (long double)c.unit()); k = "inside"; break;
	}
	if (x > e0 && x < e1) k = "inside"; else if (x < e0) k = refc::is_inf(x) ? "x=+-inf" : "x<edge0"; else if (x > e1) k = refc::is_inf(x) ? "x=+-inf" : "x>edge1";
	if (x == e0) k = "x=edge0"; if (x == e1) k = "x=edge1";
	c.cls(k);
	if (c.verbose) c.logf("%s edge0=%a edge1=%a x=%a (%s)", TN<T>::n(), (double)e0, (double)e1, (double)x, k);
	if (k[0] == 'i') c.nontrivial();
	// t = clamp((x-e0)/(e1-e0),0,1); t*t*(3-2t). Relative rounding bound of the formula ~ 9u (t: 3u, amplified <= 2x
	// by the Hermite polynomial, + 3 roundings) = 4.5 eps; x8 -> 40 eps relative (+ subnormal floor).
	auto ref = [&](T xx, T a0, T a1, Q* tolp) {
		Q t = ((Q)xx - (Q)a0) / ((Q)a1 - (Q)a0);
		if (xx <= a0) t = 0; if (xx >= a1) t = 1;
		Q h = t * t * (3 - 2 * t);
		*tolp = (xx <= a0 || xx >= a1) ? (Q)0 : 40 * qeps<T>() * h + 8 * qdenorm<T>();
		return h;
	};
	Q tol, ex = ref(x, e0, e1, &tol);
	T got = glm::smoothstep(e0, e1, x);
	Q err = qabs((Q)got - ex);
	if (tol > 0) met(c, "smoothstep err/tol", (double)(err / tol));
	if (!(err <= tol)) FAILK(c, "smoothstep", T, k, "smoothstep(%a,%a,%a)=%a, expected %.20Lg", (double)e0, (double)e1, (double)x, (double)got, (long double)ex);
	// vec4: scalar edges / vector edges; lanes x, e0, e1, midpoint
	T xm = (T)(((long double)e0 + (long double)e1) * 0.5L);
	V vx(x, e0, e1, xm);
	V r1 = glm::smoothstep(e0, e1, vx), r2 = glm::smoothstep(V(e0, e0, e0, e0 - T(1)), V(e1, e1, e1, e1 + T(1)), vx);
	for (int i = 0; i < 4; ++i) {
		Q t1, x1 = ref(vx[i], e0, e1, &t1), t2, x2 = ref(vx[i], i == 3 ? e0 - T(1) : e0, i == 3 ? e1 + T(1) : e1, &t2);
		if (!(qabs((Q)r1[i] - x1) <= t1)) FAILK(c, "smoothstep/vec4-scalar-edges", T, "lane", "lane %d: smoothstep(%a,%a,%a)=%a, expected %.20Lg", i, (double)e0, (double)e1, (double)vx[i], (double)r1[i], (long double)x1);
		if (!(qabs((Q)r2[i] - x2) <= t2)) FAILK(c, "smoothstep/vec4", T, "lane", "lane %d: smoothstep(..,%a)=%a, expected %.20Lg", i, (double)vx[i], (double)r2[i], (long double)x2);
		if (t1 > 0) met(c, "smoothstep err/tol", (double)(qabs((Q)r1[i] - x1) / t1));
	}
}

// mod(x,y) = x - y*floor(x/y); fmod(x,y) = x - y*trunc(x/y) (exact remainder)
template <class T> static void check_mod(pbt::Ctx& c) {
	typedef glm::vec<4, T> V;
	T x, y;
	switch (c.draw(6)) {
	case 0: x = gen_mod<T>(c); y = gen_mod<T>(c); break;
	case 1: { y = gen_mod<T>(c); long double k = (long double)c.range(-40, 40); x = (T)((long double)y * k); if (c.coin()) x = from_ordered<T>(ordered(x) + (c.coin() ? 1 : -1)); break; }  // at / next to a multiple
	case 2: x = gen_struct<T>(c, false); y = gen_mod<T>(c); break;
	case 3: x = gen_mod<T>(c); y = gen_struct<T>(c, false); break;
	case 4: { y = gen_mod<T>(c); x = (T)((long double)y * ((long double)c.range(-100000, 100000) + (long double)c.unit())); break; }
	default: x = gen_struct<T>(c, false); y = gen_struct<T>(c, false); break;
	}
	if (!refc::is_finite(x) || !refc::is_finite(y) || refc::is_zero(y)) { c.skip(); return; }
	if (c.verbose) c.logf("%s x=%a y=%a", TN<T>::n(), (double)x, (double)y);
	const bool neg = refc::sign_bit(x) != refc::sign_bit(y);
	// fmod: exact
	{
		T want = refc::fmod_exact(x, y), got = glm::fmod(x, y);
		const char* k = refc::fabs(x) < refc::fabs(y) ? "abs(x)<abs(y)" : (refc::is_zero(want) ? "multiple" : "general");
		if (!veq(c, got, want)) FAILK(c, "fmod", T, k, "fmod(%a,%a)=%a, expected %a", (double)x, (double)y, (double)got, (double)want);
		V g = glm::fmod(V(x, -x, x, -x), V(y, y, -y, -y)), gs = glm::fmod(V(x, -x, y, x), y);
		T xs[4] = {x, -x, x, -x}, ys[4] = {y, y, -y, -y}, zs[4] = {x, -x, y, x};
		for (int i = 0; i < 4; ++i) {
			if (!veq(c, g[i], refc::fmod_exact(xs[i], ys[i]))) FAILK(c, "fmod/vec4", T, k, "lane %d: fmod(%a,%a)=%a", i, (double)xs[i], (double)ys[i], (double)g[i]);
			if (!veq(c, gs[i], refc::fmod_exact(zs[i], y))) FAILK(c, "fmod/vec4-scalar", T, "lane", "lane %d: fmod(%a,%a)=%a", i, (double)zs[i], (double)y, (double)gs[i]);
		}
	}
	// mod: the quotient is formed in T (one IEEE division), n = floor of it; then x - y*n with the rounding bound of one
	// product and one difference: ulp(y*n)/2 + ulp(result)/2 <= ulp(scale); x8. Domain: quotient and product finite.
	T qt = x / y;
	if (!refc::is_finite(qt)) { c.cls("quotient-overflow(skipped)"); return; }
	auto modref = [&](T xx, T yy, Q* tolp, bool* ok) {
		T q = xx / yy, n = refc::floor(q);
		Q p = (Q)yy * (Q)n, r = (Q)xx - p;
		*ok = refc::is_finite(q) && qabs(p) <= (Q)std::numeric_limits<T>::max();
		*tolp = 8 * qulp<T>(qmax(qabs(p), qabs((Q)xx))) + 8 * qdenorm<T>();
		return r;
	};
	{
		Q tol; bool ok; Q ex = modref(x, y, &tol, &ok);
		if (!ok) { c.cls("product-overflow(skipped)"); return; }
		T n = refc::floor(qt);
		Q qexact = (Q)x / (Q)y;
		const char* k = refc::fabs(x) < refc::fabs(y) ? (neg && !refc::is_zero(x) ? "abs(x)<abs(y),opposite-signs" : "abs(x)<abs(y)") : (refc::isinteger(qt) ? ((Q)qt == qexact ? "exact-multiple" : "quotient-rounds-to-integer") : (neg ? "general,opposite-signs" : "general"));
		c.cls(k);
		if (!refc::is_zero(n)) c.nontrivial();
		T got = glm::mod(x, y);
		Q err = qabs((Q)got - ex);
		met(c, "mod err/tol", (double)(err / tol));
		if (!(err <= tol)) FAILK(c, "mod", T, k, "mod(%a,%a)=%a, x-y*floor(x/y)=%.20Lg with floor(x/y)=%a (err/tol %.3g)", (double)x, (double)y, (double)got, (long double)ex, (double)n, (double)(err / tol));
	}
	V g = glm::mod(V(x, -x, x, -x), V(y, y, -y, -y)), gs = glm::mod(V(x, -x, y, x), y);
	T xs[4] = {x, -x, x, -x}, ys[4] = {y, y, -y, -y}, zs[4] = {x, -x, y, x};
	for (int i = 0; i < 4; ++i) {
		Q t1, t2; bool o1, o2; Q e1 = modref(xs[i], ys[i], &t1, &o1), e2 = modref(zs[i], y, &t2, &o2);
		if (o1 && !(qabs((Q)g[i] - e1) <= t1)) FAILK(c, "mod/vec4", T, "lane", "lane %d: mod(%a,%a)=%a, expected %.20Lg", i, (double)xs[i], (double)ys[i], (double)g[i], (long double)e1);
		if (o2 && !(qabs((Q)gs[i] - e2) <= t2)) FAILK(c, "mod/vec4-scalar", T, "lane", "lane %d: mod(%a,%a)=%a, expected %.20Lg", i, (double)zs[i], (double)y, (double)gs[i], (long double)e2);
		if (o1) met(c, "mod err/tol", (double)(qabs((Q)g[i] - e1) / t1));
	}
}

// ldexp(x,e) = x*2^e when representable (undefined when too large); frexp inverse
template <class T> static void check_ldexp(pbt::Ctx& c) {
	typedef glm::vec<4, T> V; typedef glm::vec<4, int> I;
	typedef std::numeric_limits<T> NL;
	T x = gen_struct<T>(c, false);
	if (!refc::is_finite(x)) x = T(1.25);
	int e;
	const int span = NL::max_exponent - NL::min_exponent + FB<T>::MANT + 4;
	switch (c.draw(6)) {
	case 0: e = (int)c.range(-40, 40); break;
	case 1: e = (int)c.range(-span, span); break;
	case 2: { int ex; refc::frexp(x, &ex); e = NL::max_exponent - ex - (int)c.range(0, 3); break; }              // result just below overflow
	case 3: { int ex; refc::frexp(x, &ex); e = NL::min_exponent - ex - (int)c.range(-2, FB<T>::MANT + 3); break; }  // result across the subnormal range
	case 4: { static const int E[] = {0, 1, -1, INT32_MAX, INT32_MIN, INT32_MIN + 1, 65536, -65536, 1 << 30, -(1 << 30)}; e = E[c.draw(10)]; break; }
	default: e = (int)(int32_t)c.draw(1ULL << 32); break;
	}
	if (c.verbose) c.logf("%s x=%a e=%d", TN<T>::n(), (double)x, e);
	auto ref = [&](T xx, int ee, const char** kp, long double* lo, long double* hi) -> bool {  // false: outside the documented domain
		if (refc::is_zero(xx)) { *kp = "zero-arg"; *lo = *hi = 0; return true; }
		int ex; refc::frexp(xx, &ex);
		long long re = (long long)ex + ee;  // result in [2^(re-1), 2^re)
		if (re > NL::max_exponent) { *kp = "too-large(undefined)"; return false; }
		if (re < NL::min_exponent - FB<T>::MANT - 2) { *kp = "underflow-to-zero"; *lo = *hi = 0; return true; }
		long double v = refc::scale2(xx, ee);
		T r = (T)v;  // correctly rounded (hardware conversion)
		if ((long double)r == v) { *kp = re < NL::min_exponent ? "subnormal-result-exact" : "normal-result"; *lo = *hi = v; return true; }
		*kp = "subnormal-result-rounded";
		T dn = (long double)r < v ? r : from_ordered<T>(ordered(r) - 1), up = (long double)r > v ? r : from_ordered<T>(ordered(r) + 1);
		*lo = dn; *hi = up; return true;
	};
	const char* k; long double lo, hi;
	if (!ref(x, e, &k, &lo, &hi)) { c.cls(k); return; }
	c.cls(k);
	if (e != 0 && !refc::is_zero(x)) c.nontrivial();
	T got = glm::ldexp(x, e);
	if (!((long double)got == lo || (long double)got == hi) || (refc::is_zero(got) && !refc::is_zero(x) && refc::sign_bit(got) != refc::sign_bit(x)))
		FAILK(c, "ldexp", T, k, "ldexp(%a,%d)=%a, expected %La%s%La", (double)x, e, (double)got, lo, lo == hi ? " = " : " or ", hi);
	// vec4: lanes (x,e) (x,e-1) (-x,e) (2x,-e)
	T xs[4] = {x, x, -x, refc::is_finite(x * 2) ? x * 2 : x}; int es[4] = {e, e == INT32_MIN ? e : e - 1, e, e == INT32_MIN ? 0 : -e};
	V g = glm::ldexp(V(xs[0], xs[1], xs[2], xs[3]), I(es[0], es[1], es[2], es[3]));
	for (int i = 0; i < 4; ++i) {
		const char* k2; long double l2, h2;
		if (!ref(xs[i], es[i], &k2, &l2, &h2)) continue;
		if (!((long double)g[i] == l2 || (long double)g[i] == h2)) FAILK(c, "ldexp/vec4", T, k2, "lane %d: ldexp(%a,%d)=%a", i, (double)xs[i], es[i], (double)g[i]);
	}
	I ge(7, 7, 7, 7);
	V gs = glm::frexp(V(xs[0], xs[1], xs[2], xs[3]), ge);
	for (int i = 0; i < 4; ++i) {
		int we; T ws = refc::frexp(xs[i], &we);
		if (!same_bits(gs[i], ws) || ge[i] != we) FAILK(c, "frexp/vec4", T, xclass(xs[i]), "lane %d: frexp(%a)=(%a,%d), expected (%a,%d)", i, (double)xs[i], (double)gs[i], ge[i], (double)ws, we);
	}
}

// epsilonEqual: |x-y| < eps; epsilonNotEqual: |x-y| >= eps
template <class T> static void check_epsilon(pbt::Ctx& c) {
	typedef glm::vec<4, T> V; typedef glm::vec<4, bool> B;
	T x = c.coin() ? gen_mod<T>(c) : gen_struct<T>(c, false);
	if (!refc::is_finite(x)) x = T(3);
	T eps;
	switch (c.draw(6)) {
	case 0: eps = std::numeric_limits<T>::epsilon(); break;
	case 1: eps = T(0); break;
	case 2: eps = (T)c.loguniform(1e-12, 1e3); break;
	case 3: eps = std::numeric_limits<T>::denorm_min(); break;
	case 4: eps = T(0.5); break;
	default: eps = refc::fabs(gen_mod<T>(c)); break;
	}
	T y;
	switch (c.draw(5)) {
	case 0: y = x; break;
	case 1: y = from_ordered<T>(ordered(x) + (typename bits_of<T>::S)c.range(-3, 3)); break;
	case 2: y = (c.coin() ? x + eps : x - eps); break;
	case 3: { T t = c.coin() ? x + eps : x - eps; y = from_ordered<T>(ordered(t) + (typename bits_of<T>::S)c.range(-2, 2)); break; }
	default: y = gen_mod<T>(c); break;
	}
	if (!refc::is_finite(y)) y = x;
	if (c.verbose) c.logf("%s x=%a y=%a eps=%a", TN<T>::n(), (double)x, (double)y, (double)eps);
	Q dq = qabs((Q)x - (Q)y);          // exact
	T dt = refc::fabs(x - y);          // the documented expression in T
	bool real = dq < (Q)eps, inT = dt < eps;
	const char* k = real != inT ? "rounding-of-x-y-decides" : (dq == (Q)eps ? "distance==eps" : (real ? "inside" : "outside"));
	c.cls(k);
	if (x != y) c.nontrivial();
	bool ge = glm::epsilonEqual(x, y, eps), gn = glm::epsilonNotEqual(x, y, eps);
	if (ge != real && ge != inT) FAILK(c, "epsilonEqual", T, k, "epsilonEqual(%a,%a,%a)=%d, |x-y|=%.20Lg", (double)x, (double)y, (double)eps, (int)ge, (long double)dq);
	if (gn == real && gn == inT) FAILK(c, "epsilonNotEqual", T, k, "epsilonNotEqual(%a,%a,%a)=%d, |x-y|=%.20Lg", (double)x, (double)y, (double)eps, (int)gn, (long double)dq);
	if (ge == gn) FAILK(c, "epsilonEqual-vs-NotEqual", T, k, "epsilonEqual and epsilonNotEqual agree (%d) on (%a,%a,%a)", (int)ge, (double)x, (double)y, (double)eps);
	V vx(x, y, x, -x), vy(y, x, x, y);
	B b1 = glm::epsilonEqual(vx, vy, eps), b2 = glm::epsilonNotEqual(vx, vy, eps), b3 = glm::epsilonEqual(vx, vy, V(eps, eps, T(0), eps * 2)), b4 = glm::epsilonNotEqual(vx, vy, V(eps, eps, T(0), eps * 2));
	T es[4] = {eps, eps, T(0), eps * 2};
	for (int i = 0; i < 4; ++i) {
		Q d = qabs((Q)vx[i] - (Q)vy[i]); T t = refc::fabs(vx[i] - vy[i]);
		bool r1 = d < (Q)eps, t1 = t < eps, r2 = d < (Q)es[i], t2 = t < es[i];
		if (b1[i] != r1 && b1[i] != t1) FAILK(c, "epsilonEqual/vec4-scalar", T, "lane", "lane %d: epsilonEqual(%a,%a,%a)=%d", i, (double)vx[i], (double)vy[i], (double)eps, (int)b1[i]);
		if (b2[i] == r1 && b2[i] == t1) FAILK(c, "epsilonNotEqual/vec4-scalar", T, "lane", "lane %d: epsilonNotEqual(%a,%a,%a)=%d", i, (double)vx[i], (double)vy[i], (double)eps, (int)b2[i]);
		if (b3[i] != r2 && b3[i] != t2) FAILK(c, "epsilonEqual/vec4", T, "lane", "lane %d: epsilonEqual(%a,%a,%a)=%d", i, (double)vx[i], (double)vy[i], (double)es[i], (int)b3[i]);
		if (b4[i] == r2 && b4[i] == t2) FAILK(c, "epsilonNotEqual/vec4", T, "lane", "lane %d: epsilonNotEqual(%a,%a,%a)=%d", i, (double)vx[i], (double)vy[i], (double)es[i], (int)b4[i]);
	}
}

// vec4 overloads of the unary functions of part 1 (lanes carry four different values) and of the bit casts
template <class T> static void check_unary_vec(pbt::Ctx& c) {
	typedef glm::vec<4, T> V; typedef glm::vec<4, bool> B;
	T v[4];
	for (int i = 0; i < 4; ++i) v[i] = gen_struct<T>(c, true);
	if (c.verbose) c.logf("%s v=(%a,%a,%a,%a)", TN<T>::n(), (double)v[0], (double)v[1], (double)v[2], (double)v[3]);
	if (refc::bits(v[0]) != refc::bits(v[1]) && refc::bits(v[1]) != refc::bits(v[2]) && refc::bits(v[2]) != refc::bits(v[3]) && refc::bits(v[0]) != refc::bits(v[2]) && refc::bits(v[0]) != refc::bits(v[3]) && refc::bits(v[1]) != refc::bits(v[3])) c.nontrivial();
	V x(v[0], v[1], v[2], v[3]);
	V fl = glm::floor(x), ce = glm::ceil(x), tr = glm::trunc(x), ro = glm::round(x), re = glm::roundEven(x), fr = glm::fract(x), ab = glm::abs(x), sg = glm::sign(x), ip(T(9)), mf = glm::modf(x, ip);
	B bn = glm::isnan(x), bi = glm::isinf(x), bf = glm::isfinite(x), bd = glm::isdenormal(x);
	for (int i = 0; i < 4; ++i) {
		const T p = v[i]; const char* k = xclass(p); c.cls(k);
		const refc::Rounded<T> R = refc::rounded(p);
		if (!same_value(fl[i], R.fl)) FAILK(c, "floor/vec4", T, k, "lane %d: floor(%a)=%a", i, (double)p, (double)fl[i]);
		if (!same_value(ce[i], R.ce)) FAILK(c, "ceil/vec4", T, k, "lane %d: ceil(%a)=%a", i, (double)p, (double)ce[i]);
		if (!same_value(tr[i], R.t)) FAILK(c, "trunc/vec4", T, k, "lane %d: trunc(%a)=%a", i, (double)p, (double)tr[i]);
		if (!same_value(ro[i], R.away) && !same_value(ro[i], R.even)) FAILK(c, "round/vec4", T, k, "lane %d: round(%a)=%a", i, (double)p, (double)ro[i]);
		if (!same_value(re[i], R.even)) FAILK(c, "roundEven/vec4", T, k, "lane %d: roundEven(%a)=%a, expected %a", i, (double)p, (double)re[i], (double)R.even);
		if (!same_value(fr[i], p - R.fl)) FAILK(c, "fract/vec4", T, k, "lane %d: fract(%a)=%a", i, (double)p, (double)fr[i]);
		if (refc::is_nan(p) ? !refc::is_nan(ab[i]) : !same_bits(ab[i], p >= T(0) ? p : -p)) FAILK(c, "abs/vec4", T, k, "lane %d: abs(%a)=%a", i, (double)p, (double)ab[i]);
		if (!refc::is_nan(p) && !(sg[i] == (p > T(0) ? T(1) : (p < T(0) ? T(-1) : T(0))))) FAILK(c, "sign/vec4", T, k, "lane %d: sign(%a)=%a", i, (double)p, (double)sg[i]);
		if (!same_value(ip[i], R.t) || (R.fin && !same_value(mf[i], p - R.t))) FAILK(c, "modf/vec4", T, k, "lane %d: modf(%a)=(%a,%a)", i, (double)p, (double)mf[i], (double)ip[i]);
		if (bn[i] != refc::is_nan(p) || bi[i] != refc::is_inf(p) || bf[i] != refc::is_finite(p) || bd[i] != refc::is_subnormal(p)) FAILK(c, "isnan-isinf-isfinite-isdenormal/vec4", T, k, "lane %d: classifiers of %a = %d %d %d %d", i, (double)p, (int)bn[i], (int)bi[i], (int)bf[i], (int)bd[i]);
	}
	// wrap modes and iround/uround on the admissible lanes (x >= 0 asserted by GLM for the whole vector)
	V fx; for (int i = 0; i < 4; ++i) fx[i] = refc::is_finite(v[i]) ? v[i] : T(i) + T(0.75);
	V wc = glm::clamp(fx), wr = glm::repeat(fx), wm = glm::mirrorClamp(fx), wq = glm::mirrorRepeat(fx), sa = glm::saturate(fx);
	for (int i = 0; i < 4; ++i) {
		const T p = fx[i]; const char* k = xclass(p);
		T a = refc::fabs(p), n = refc::floor(a), r = a - n;
		T wantc = p < T(0) ? T(0) : (p > T(1) ? T(1) : p);
		if (!(wc[i] == wantc) || !(sa[i] == wantc)) FAILK(c, "wrap-clamp-saturate/vec4", T, k, "lane %d: clamp(%a)=%a saturate=%a", i, (double)p, (double)wc[i], (double)sa[i]);
		if (!(wr[i] == p - refc::floor(p))) FAILK(c, "repeat/vec4", T, k, "lane %d: repeat(%a)=%a", i, (double)p, (double)wr[i]);
		if (!(wm[i] >= T(0) && wm[i] <= T(1)) || (a < T(1) && !(wm[i] == a))) FAILK(c, "mirrorClamp/vec4", T, k, "lane %d: mirrorClamp(%a)=%a", i, (double)p, (double)wm[i]);
		long double ex = refc::iseven(n) ? (long double)r : 1.0L - (long double)r, er = (long double)wq[i] - ex; if (er < 0) er = -er;
		if (!(er <= 2 * (long double)std::numeric_limits<T>::epsilon())) FAILK(c, "mirrorRepeat/vec4", T, k, "lane %d: mirrorRepeat(%a)=%a, expected %.17Lg", i, (double)p, (double)wq[i], ex);
	}
	V px; for (int i = 0; i < 4; ++i) { T a = refc::fabs(fx[i]); px[i] = (long double)a < 2147483647.5L ? a : T(i) + T(0.5); }
	// uround's domain is wider (nearest integer representable in uint: x < 2^32 - 0.5): its own vector, one lane in four drawn from
	// [2^31, 2^32) where a detour through int would saturate
	V pu; for (int i = 0; i < 4; ++i) { T a = refc::fabs(fx[i]); pu[i] = (long double)a < 4294967295.5L ? a : T(i) + T(0.5); }
	for (int i = 0; i < 4; ++i) if (c.draw(4) == 0) { T hi = (T)(2147483648.0 + (double)c.draw(1ULL << 31) + (sizeof(T) == 8 ? c.unit() : 0.0)); if ((long double)hi < 4294967295.5L) { pu[i] = hi; c.cls("uround-lane-above-2^31"); } }
	glm::vec<4, int> ir = glm::iround(px); glm::vec<4, glm::uint> ur = glm::uround(pu);
	for (int i = 0; i < 4; ++i) {
		long double d1 = (long double)px[i] - (long double)ir[i], d2 = (long double)pu[i] - (long double)ur[i]; if (d1 < 0) d1 = -d1; if (d2 < 0) d2 = -d2;
		const char* ik = px[i] == pred_half<T>() ? "x=0.5-ulp" : ((px[i] >= two_mant<T>() && px[i] < two_mant<T>() * 2 && !refc::iseven(px[i])) ? "odd-integer-2^mant..2^(mant+1)" : "other");
		const char* uk = pu[i] == pred_half<T>() ? "x=0.5-ulp" : ((pu[i] >= two_mant<T>() && pu[i] < two_mant<T>() * 2 && !refc::iseven(pu[i])) ? "odd-integer-2^mant..2^(mant+1)" : (pu[i] >= T(2147483648.0) ? "x>=2^31" : "other"));
		if (d1 > 0.5L) FAILK(c, "iround/vec4", T, ik, "lane %d: iround(%a)=%d", i, (double)px[i], ir[i]);
		if (d2 > 0.5L) FAILK(c, "uround/vec4", T, uk, "lane %d: uround(%a)=%u", i, (double)pu[i], ur[i]);
	}
	if constexpr (sizeof(T) == 4) {
		glm::ivec4 gi = glm::floatBitsToInt(x); glm::uvec4 gu = glm::floatBitsToUint(x);
		glm::vec4 bi2 = glm::intBitsToFloat(glm::ivec4((int)f2u(v[0]), (int)f2u(v[1]), (int)f2u(v[2]), (int)f2u(v[3]))), bu2 = glm::uintBitsToFloat(glm::uvec4(f2u(v[0]), f2u(v[1]), f2u(v[2]), f2u(v[3])));
		for (int i = 0; i < 4; ++i)
			if ((uint32_t)gi[i] != f2u(v[i]) || gu[i] != f2u(v[i]) || f2u(bi2[i]) != f2u(v[i]) || f2u(bu2[i]) != f2u(v[i])) FAILK(c, "bitcasts/vec4", T, xclass(v[i]), "lane %d: bits 0x%08x -> %08x %08x %08x %08x", i, f2u(v[i]), (uint32_t)gi[i], gu[i], f2u(bi2[i]), f2u(bu2[i]));
	}
}

#define ARITH_TARGETS(T, N) \
	static void blend_##N(pbt::Ctx& c) { check_blend<T>(c); } \
	PBT_RANDOM("random/mix_lerp_fma/" #N, blend_##N, 1500000, 40000000, "moderate finite x,y (|v| in [2^-10,2^10] or small exact values), a in {0,1,0.5,[0,1),[-2,3],moderate}; mix/lerp scalar, mixed-precision interpolant, vec4 with scalar and vector interpolant, fma; non-trivial = x != y and a != 0"); \
	static void smooth_##N(pbt::Ctx& c) { check_smoothstep<T>(c); } \
	PBT_RANDOM("random/smoothstep/" #N, smooth_##N, 1500000, 40000000, "moderate edge0 < edge1, x at / next to / between / beyond the edges and +-inf; scalar and vec4; non-trivial = edge0 < x < edge1"); \
	static void mod_##N(pbt::Ctx& c) { check_mod<T>(c); } \
	PBT_RANDOM("random/mod_fmod/" #N, mod_##N, 1500000, 40000000, "finite x, finite non-zero y: moderate pairs, x at / next to multiples of y, large quotients, structured x or y; mod against x-y*floor(x/y), fmod against exact long division; scalar and vec4; non-trivial = floor(x/y) != 0"); \
	static void ldexp_##N(pbt::Ctx& c) { check_ldexp<T>(c); } \
	PBT_RANDOM("random/ldexp_frexp/" #N, ldexp_##N, 1500000, 40000000, "finite x (structured), exponents small / across the whole range / at the overflow and subnormal boundaries / extreme ints; results too large are skipped (undefined); non-trivial = e != 0 and x != 0"); \
	static void eps_##N(pbt::Ctx& c) { check_epsilon<T>(c); } \
	PBT_RANDOM("random/epsilonEqual/" #N, eps_##N, 1500000, 40000000, "finite x, y = x, x +- few ulp, x +- eps (+- few ulp), unrelated; eps in {epsilon, 0, denorm_min, 0.5, log-uniform, moderate}; non-trivial = x != y"); \
	static void uvec_##N(pbt::Ctx& c) { check_unary_vec<T>(c); } \
	PBT_RANDOM("random/unary_vec4/" #N, uvec_##N, 1500000, 40000000, "four structured values (NaN/inf allowed) through the vec4 overloads of the unary functions, wrap modes, iround/uround and bit casts; non-trivial = four different bit patterns");
ARITH_TARGETS(float, float)
ARITH_TARGETS(double, double)
